package main

import (
	"fmt"

	"symgo/sym"
)

// Prop describes how one property is decided.
type Prop struct {
	ID          string
	Title       string
	Jobs        func(tier string) []*sym.Job
	Assumptions []string
	Bounds      map[string]string
	Outside     []string
	LevelText   string
	LevelNote   string
	DesignRef   string
}

// notApplicable lists properties that are not claimed, with the reason.
var notApplicable = map[string]string{}

const mod = sym.HeliosModule

func job(id, pkg, fn string, args ...int64) *sym.Job {
	return &sym.Job{ID: id, Harness: mod + "/internal/" + pkg + "." + fn, Args: args, ValidatePaths: 2}
}

// arith marks a job as division/multiplication heavy: cross-check on z3 4.8.12
// (cvc5's bit-blaster needs minutes on 64-bit division).
func arith(j *sym.Job) *sym.Job {
	j.Cross = "z3"
	return j
}

func neg(j *sym.Job) *sym.Job {
	j.ExpectViolation = true
	j.ValidatePaths = 0
	j.StopAtFirst = true
	return j
}

func tierPick(tier string, quick, thorough int64) int64 {
	if tier == "thorough" {
		return thorough
	}
	return quick
}

var commonAssumptions = []string{
	"clock model: instants are signed 64-bit nanosecond counts on one time line; the clock starts at 2^60 and moves only through verifrt.Advance (constant inside one operation); the zero time.Time is instant 0; durations are assumed < 2^56 ns where stated",
	"logging (internal/logging.L/WithContext, github.com/rs/zerolog) has empty bodies; fmt.Sprintf/Errorf return opaque values",
	"package initialisers of non-Helios packages are not executed; their error variables are distinct opaque objects",
	"map iteration follows insertion order",
	"solver verdicts: z3 5.1 incremental first, then a z3 4.8.12 / z3 5.1 / cvc5 / cvc5 --solve-bv-as-int portfolio; every model is re-evaluated against the query; a sampled subset is cross-checked on a second solver",
}

func allProps() []*Prop {
	return []*Prop{
		propC07(),
		propC08(),
		propC09(),
	}
}

func propC09() *Prop {
	return &Prop{
		ID: "C09", Title: "Rate limiting: per-client token-bucket bound, isolation, refill",
		Jobs: func(tier string) []*sym.Job {
			var js []*sym.Job
			js = append(js, job("C09a/invariant", "ratelimiter", "VerifC09Invariant"))
			for i := int64(1); i <= tierPick(tier, 2, 3); i++ {
				js = append(js, job(fmt.Sprintf("C09b/window[k=%d,any refill]", i), "ratelimiter", "VerifC09Window", i, 1, 0))
			}
			for i := int64(3); i <= tierPick(tier, 3, 4); i++ {
				js = append(js, job(fmt.Sprintf("C09b/window[k=%d,refill 1s|3s]", i), "ratelimiter", "VerifC09Window", i, 1, 1))
			}
			js = append(js, neg(job("C09b/window-negative-twin[k=2,no +1]", "ratelimiter", "VerifC09Window", 2, 0, 0)))
			for m := int64(1); m <= 5; m++ {
				js = append(js, job(fmt.Sprintf("C09c/burst[max=%d]", m), "ratelimiter", "VerifC09Burst", m))
			}
			for i := int64(1); i <= tierPick(tier, 3, 5); i++ {
				js = append(js, job(fmt.Sprintf("C09d/idle[k=%d]", i), "ratelimiter", "VerifC09Idle", i))
			}
			js = append(js, job("C09e/isolation[k=2,any refill]", "ratelimiter", "VerifC09Isolation", 2, 0))
			js = append(js, job(fmt.Sprintf("C09e/isolation[k=%d,refill 1s|3s]", tierPick(tier, 3, 4)), "ratelimiter", "VerifC09Isolation", tierPick(tier, 3, 4), 1))
			if tier == "thorough" {
				js = append(js, job("C09e/isolation[k=3,any refill]", "ratelimiter", "VerifC09Isolation", 3, 0))
			}
			js = append(js, job("C09h/cleanup", "ratelimiter", "VerifC09Cleanup"))
			for _, j := range js {
				arith(j)
			}
			return js
		},
		Assumptions: commonAssumptions,
		Bounds:      map[string]string{"quick": "one Allow from an arbitrary invariant state (inductive)", "thorough": "same"},
		Outside:     []string{"more than 3 goroutines on one bucket", "timing of the cleanup goroutine"},
	}
}

var _ = fmt.Sprintf

func propC07() *Prop {
	return &Prop{
		ID: "C07", Title: "Circuit breaker safety: trip, block while open, bounded half-open trials",
		Jobs: func(tier string) []*sym.Job {
			var js []*sym.Job
			js = append(js, job("C07a/init", "circuitbreaker", "VerifC07Init"))
			js = append(js, job("C07a/inductive-step[thresholds<=3]", "circuitbreaker", "VerifC07Step", 3))
			js = append(js, job("C07a/inductive-step[thresholds<=2^30]", "circuitbreaker", "VerifC07Step", 1<<30))
			for k := int64(4); k <= tierPick(tier, 4, 6); k++ {
				js = append(js, job(fmt.Sprintf("C07a/histories[k=%d]", k), "circuitbreaker", "VerifC07Seq", k))
			}
			js = append(js, neg(job("C07a/negative-twin", "circuitbreaker", "VerifC07NegStep")))
			return js
		},
		Assumptions: commonAssumptions,
		Bounds: map[string]string{
			"quick":    "sequential: constructor + one inductive step from any invariant state (thresholds up to 2^30, any interval/timeout in 1ns..2^40ns, any elapsed time) = histories of any length; plus explicit histories of <= 4 events over {ok, error, panic, time passes}, thresholds 1..3",
			"thorough": "same, explicit histories <= 6 events",
		},
		Outside: []string{"durations above 2^40 ns", "time advancing inside one Execute call"},
	}
}

func propC08() *Prop {
	return &Prop{
		ID: "C08", Title: "Circuit breaker liveness: never locks traffic out forever, never blocks",
		Jobs: func(tier string) []*sym.Job {
			var js []*sym.Job
			js = append(js, job("C08a/recovery-from-any-invariant-state", "circuitbreaker", "VerifC08Step"))
			for k := int64(2); k <= tierPick(tier, 3, 5); k++ {
				js = append(js, job(fmt.Sprintf("C08a/recovery-after-history[k=%d]", k), "circuitbreaker", "VerifC08Recovery", k))
			}
			return js
		},
		Assumptions: commonAssumptions,
		Bounds: map[string]string{
			"quick":    "thresholds 1..3, recovery script from any invariant state and after every history of <= 3 events",
			"thorough": "same, histories <= 5 events",
		},
		Outside: []string{"thresholds above 3 in the recovery script (loop bound)"},
	}
}
