package main

import (
	"fmt"
	"time"

	"symgo/sym"
)

// Prop describes how one property is decided.
type Prop struct {
	ID          string
	Title       string
	Jobs        func(tier string) []*sym.Job
	Assumptions []string
	Bounds      map[string]string
	Outside     []string
	LevelText   string
	LevelNote   string
	DesignRef   string
	Patches     []sym.SourcePatch
}

// notApplicable lists properties that are not claimed, with the reason.
var notApplicable = map[string]string{}

const mod = sym.HeliosModule

// proxyStubs redirects the reverse proxy to the harness model of it.
var proxyStubs = map[string]string{
	"(*net/http/httputil.ReverseProxy).ServeHTTP": mod + "/internal/loadbalancer.verifStubProxy",
	"(*net/http.Client).Do":                       mod + "/internal/loadbalancer.verifClientDo",
	"net/http.TimeoutHandler":                     mod + "/cmd/helios.verifTimeoutHandler",
	"(*net/http.Server).Shutdown":                 mod + "/cmd/helios.verifServerShutdown",
	"(*net/http.Server).Close":                    mod + "/cmd/helios.verifServerClose",
}

// configStubs: LoadConfig runs for real except for the file system and the YAML parser.
var configStubs = map[string]string{
	"os.ReadFile":                mod + "/internal/config.verifReadFile",
	"gopkg.in/yaml.v3.Unmarshal": mod + "/internal/config.verifUnmarshal",
}

func job(id, pkg, fn string, args ...int64) *sym.Job {
	j := &sym.Job{ID: id, Harness: mod + "/internal/" + pkg + "." + fn, Args: args, ValidatePaths: 2}
	if pkg == "config" {
		j.Stubs = configStubs
	}
	return j
}

// arith marks a job as division/multiplication heavy: cross-check on z3 4.8.12
// (cvc5's bit-blaster needs minutes on 64-bit division).
func arith(j *sym.Job) *sym.Job {
	j.Cross = "z3"
	return j
}

func neg(j *sym.Job) *sym.Job {
	j.ExpectViolation = true
	j.ValidatePaths = 0
	j.StopAtFirst = true
	return j
}

func tierPick(tier string, quick, thorough int64) int64 {
	if tier == "thorough" {
		return thorough
	}
	return quick
}

var commonAssumptions = []string{
	"clock model: instants are signed 64-bit nanosecond counts on one time line; the clock starts at 2^60 and moves only through verifrt.Advance (constant inside one operation); the zero time.Time is instant 0; durations are assumed < 2^56 ns where stated",
	"logging (internal/logging.L/WithContext, github.com/rs/zerolog) has empty bodies; fmt.Sprintf/Errorf return opaque values",
	"package initialisers of non-Helios packages are not executed; their error variables are distinct opaque objects",
	"map iteration follows insertion order",
	"solver verdicts: z3 5.1 incremental first, then a z3 4.8.12 / z3 5.1 / cvc5 / cvc5 --solve-bv-as-int portfolio; every model is re-evaluated against the query; a sampled subset is cross-checked on a second solver",
}

func allProps() []*Prop {
	return []*Prop{
		propC01(),
		propC03(),
		propC10(),
		propC11(),
		propC12(),
		propC13(),
		propC14(),
		propC15(),
		propC16(),
		propC17(),
		propC18(),
		propC19(),
		propC20(),
		propC02(),
		propC04(),
		propC05(),
		propC06(),
		propC07(),
		propC08(),
		propC09(),
	}
}

func propC09() *Prop {
	return &Prop{
		ID: "C09", Title: "Rate limiting: per-client token-bucket bound, isolation, refill",
		Jobs: func(tier string) []*sym.Job {
			var js []*sym.Job
			js = append(js, job("C09a/invariant", "ratelimiter", "VerifC09Invariant"))
			for i := int64(1); i <= tierPick(tier, 2, 3); i++ {
				js = append(js, job(fmt.Sprintf("C09b/window[k=%d,any refill]", i), "ratelimiter", "VerifC09Window", i, 1, 0))
			}
			for i := int64(3); i <= tierPick(tier, 3, 4); i++ {
				js = append(js, job(fmt.Sprintf("C09b/window[k=%d,refill 1s|3s]", i), "ratelimiter", "VerifC09Window", i, 1, 1))
			}
			js = append(js, neg(job("C09b/window-negative-twin[k=2,no +1]", "ratelimiter", "VerifC09Window", 2, 0, 0)))
			for m := int64(1); m <= 5; m++ {
				js = append(js, job(fmt.Sprintf("C09c/burst[max=%d]", m), "ratelimiter", "VerifC09Burst", m))
			}
			for i := int64(1); i <= tierPick(tier, 3, 5); i++ {
				js = append(js, job(fmt.Sprintf("C09d/idle[k=%d]", i), "ratelimiter", "VerifC09Idle", i))
			}
			js = append(js, job("C09e/isolation[k=2,any refill]", "ratelimiter", "VerifC09Isolation", 2, 0))
			js = append(js, job(fmt.Sprintf("C09e/isolation[k=%d,refill 1s|3s]", tierPick(tier, 3, 4)), "ratelimiter", "VerifC09Isolation", tierPick(tier, 3, 4), 1))
			if tier == "thorough" {
				js = append(js, job("C09e/isolation[k=3,any refill]", "ratelimiter", "VerifC09Isolation", 3, 0))
			}
			js = append(js, job("C09h/cleanup", "ratelimiter", "VerifC09Cleanup"))
			js = append(js, lbJob("C09f/gate[ServeHTTP + limiter + breaker]", "VerifC09Gate"))
			for l := int64(1); l <= tierPick(tier, 3, 4); l++ {
				js = append(js, lbJob(fmt.Sprintf("C09e/isolation-any-two-client-addresses[every pair of different printable X-Forwarded-For values of %d bytes]", l), "VerifC09IsolationAny", l))
			}
			js = append(js, arith(lbJob("C09f/limiter-as-the-balancer-builds-it[real validation + setupRateLimiter, max_tokens 1..3, refill 1..3600 s]", "VerifC09Wiring")))
			for l := int64(0); l <= tierPick(tier, 3, 4); l++ {
				js = append(js, lbJob(fmt.Sprintf("C09f/gate-any-client-attribution[every ASCII X-Forwarded-For of %d bytes]", l), "VerifC09GateAny", l))
			}
			{
				n := tierPick(tier, 10050, 40000)
				j := job(fmt.Sprintf("C09h/cleanup-keeps-every-recent-bucket[%d tracked clients]", n), "ratelimiter", "VerifC09ManyClients", n)
				j.LoopBound = int(n) + 50
				j.ValidatePaths = 0
				js = append(js, j)
			}
			js = append(js, threadJob(job("C09g/no-double-spend[2 threads, existing bucket]", "ratelimiter", "VerifC09Concurrent", 2, 1, 2), 2))
			js = append(js, threadJob(job("C09g/no-double-spend[2 threads, new client]", "ratelimiter", "VerifC09Concurrent", 2, 0, 2), 2))
			js = append(js, threadJob(job("C09g/no-double-spend[2 threads, new client, max_tokens 1: more first requests than tokens]", "ratelimiter", "VerifC09Concurrent", 2, 0, 1), int(tierPick(tier, 2, 3))))
			js = append(js, threadJob(job("C09g/no-double-spend[3 threads, new client, max_tokens 2]", "ratelimiter", "VerifC09Concurrent", 3, 0, 2), int(tierPick(tier, 1, 2))))
			js = append(js, threadJob(job("C09g/refill-credited-once[2 threads around a refill boundary]", "ratelimiter", "VerifC09ConcurrentRefill", 2), int(tierPick(tier, 2, 3))))
			js = append(js, threadJob(job("C09g/refill-credited-once[3 threads around a refill boundary]", "ratelimiter", "VerifC09ConcurrentRefill", 3), int(tierPick(tier, 1, 2))))
			js = append(js, threadJob(job("C09g/no-double-spend[3 threads, existing bucket]", "ratelimiter", "VerifC09Concurrent", 3, 1, 2), int(tierPick(tier, 1, 2))))
			for _, j := range js {
				arith(j)
			}
			return js
		},
		Assumptions: commonAssumptions,
		Bounds:      map[string]string{"quick": "one Allow from an arbitrary invariant state (inductive); k<=3 calls at symbolic instants for the window / burst / idle / isolation clauses; cleanup with up to 10050 simultaneously tracked clients; 2-3 goroutines on one bucket", "thorough": "k<=4; 40000 tracked clients"},
		Outside:     []string{"more than 3 goroutines on one bucket", "timing of the cleanup goroutine", "more than 10050 (quick) / 40000 (thorough) simultaneously tracked clients"},
	}
}

var _ = fmt.Sprintf

func propC07() *Prop {
	return &Prop{
		ID: "C07", Title: "Circuit breaker safety: trip, block while open, bounded half-open trials",
		Jobs: func(tier string) []*sym.Job {
			var js []*sym.Job
			js = append(js, job("C07a/init", "circuitbreaker", "VerifC07Init"))
			js = append(js, job("C07a/inductive-step[thresholds<=3]", "circuitbreaker", "VerifC07Step", 3))
			js = append(js, job("C07a/inductive-step[thresholds<=2^30]", "circuitbreaker", "VerifC07Step", 1<<30))
			js = append(js, job("C07a/histories[k=4]", "circuitbreaker", "VerifC07Seq", 4))
			for n := int64(1); n <= tierPick(tier, 4, 6); n++ {
				js = append(js, job(fmt.Sprintf("C07a/spaced-failures[failure_threshold=%d, every gap <= interval]", n), "circuitbreaker", "VerifC07Spaced", n, 0))
				if n >= 2 {
					js = append(js, job(fmt.Sprintf("C07a/spaced-failures[failure_threshold=%d, last gap > interval]", n), "circuitbreaker", "VerifC07Spaced", n, 1))
				}
			}
			if tier == "thorough" {
				js = append(js, job("C07a/timed-histories[k=2 steps of (any time passes, then a request)]", "circuitbreaker", "VerifC07SeqTimed", 2))
			}
			js = append(js, neg(job("C07a/negative-twin", "circuitbreaker", "VerifC07NegStep")))
			js = append(js, lbJob("C07c/wiring[ServeHTTP + breaker + scripted backend]", "VerifC07Wiring", 0))
			js = append(js, lbJob("C07c/wiring[the backend may send interim 1xx responses before its final status]", "VerifC07Wiring", 1))
			js = append(js, threadJob(job("C07b/concurrent-admission[2 threads]", "circuitbreaker", "VerifC07Concurrent", 2), 2))
			js = append(js, threadJob(job("C07b/straggler-completes-while-a-trial-is-in-flight[half-open]", "circuitbreaker", "VerifC07StragglerHalfOpen"), 1))
			js = append(js, threadJob(job("C07b/overlapping-failures-all-count[closed, with and without an expired counting window]", "circuitbreaker", "VerifC07OverlappingFailures"), 1))
			js = append(js, threadJob(job("C07b/concurrent-failures-after-an-expired-counting-window[2 threads, every interleaving]", "circuitbreaker", "VerifC07ConcurrentFailuresAfterExpiredWindow"), 2))
			js = append(js, threadJob(job("C07b/straggler-admitted-while-closed-completes-after-the-trip[fails]", "circuitbreaker", "VerifC07Straggler", 0), 2))
			js = append(js, threadJob(job("C07b/straggler-admitted-while-closed-completes-after-the-trip[succeeds]", "circuitbreaker", "VerifC07Straggler", 1), 2))
			if tier == "thorough" {
				js = append(js, threadJob(job("C07b/concurrent-admission[3 threads]", "circuitbreaker", "VerifC07Concurrent", 3), 2))
			}
			return js
		},
		Assumptions: commonAssumptions,
		Bounds: map[string]string{
			"quick":    "sequential: constructor + one inductive step from any invariant state (thresholds up to 2^30, any interval/timeout in 1ns..2^40ns, any elapsed time) = histories of any length; plus explicit histories of <= 4 events over {ok, error, panic, time passes}, thresholds 1..3",
			"thorough": "same explicit histories (<= 4 events) plus timed histories of 2 steps (any time passes, then a request) and 3-thread admission",
		},
		Outside: []string{"durations above 2^40 ns", "time advancing inside one Execute call"},
	}
}

func propC08() *Prop {
	return &Prop{
		ID: "C08", Title: "Circuit breaker liveness: never locks traffic out forever, never blocks",
		Jobs: func(tier string) []*sym.Job {
			var js []*sym.Job
			js = append(js, job("C08a/recovery-from-any-invariant-state", "circuitbreaker", "VerifC08Step"))
			js = append(js, lbJob(fmt.Sprintf("C08b/notifications-never-block[k=%d]", tierPick(tier, 3, 4)), "VerifC08Notify", tierPick(tier, 3, 4)))
			js = append(js, threadJob(job("C08c/two-concurrent-successful-trials-close-the-breaker[max_requests = success_threshold = 2]", "circuitbreaker", "VerifC08ConcurrentTrials"), 3))
			// results that arrive after a state change (stale results) must not wedge the breaker: the C07 straggler harnesses end with State() and a further request
			js = append(js, threadJob(job("C08c/stale-result-does-not-block[straggler completes while a trial is in flight]", "circuitbreaker", "VerifC07StragglerHalfOpen"), 1))
			js = append(js, threadJob(job("C08c/stale-result-does-not-block[straggler fails after the trip]", "circuitbreaker", "VerifC07Straggler", 0), 2))
			js = append(js, threadJob(job("C08c/stale-result-does-not-block[straggler succeeds after the trip]", "circuitbreaker", "VerifC07Straggler", 1), 2))
			js = append(js, lbJob("C08a/every-accepted-configuration-recovers[real validation + real setupCircuitBreaker, thresholds 1..3, max_requests unset..3]", "VerifC08Config"))
			for k := int64(2); k <= tierPick(tier, 3, 4); k++ {
				js = append(js, job(fmt.Sprintf("C08a/recovery-after-history[k=%d]", k), "circuitbreaker", "VerifC08Recovery", k))
			}
			return js
		},
		Assumptions: commonAssumptions,
		Bounds: map[string]string{
			"quick":    "thresholds 1..3, recovery script from any invariant state and after every history of <= 3 events",
			"thorough": "same, histories <= 4 events",
		},
		Outside: []string{"thresholds above 3 in the recovery script (loop bound)"},
	}
}

var strategyNames = []string{"round_robin", "least_connections", "weighted_round_robin", "ip_hash", "ip_hash_consistent"}

// rrJob: round-robin jobs contain 64-bit urem by a non-power-of-two; only the
// integer-blasting back end decides them quickly.
func rrJob(j *sym.Job) *sym.Job {
	j.Primary = "cvc5-int"
	j.Cross = "z3-new"
	j.CrossTimeout = 3 * time.Second
	j.CrossCheckEvery = 25
	return j
}

func propC02() *Prop {
	return &Prop{
		ID: "C02", Title: "Failover: only healthy backends are used; 503 only when none is healthy",
		Jobs: func(tier string) []*sym.Job {
			var js []*sym.Job
			maxN := tierPick(tier, 4, 5)
			for s := int64(0); s < 5; s++ {
				for n := int64(1); n <= maxN; n++ {
					if s == 3 && n > tierPick(tier, 3, 4) {
						continue // symbolic client string: n^... paths
					}
					if s == 0 && n > 4 {
						continue // any rotation counter modulo 5: the queries take the back ends minutes each
					}
					j := job(fmt.Sprintf("C02/dispatch[%s,N=%d]", strategyNames[s], n), "loadbalancer", "VerifC02Dispatch", s, n)
					if s == 0 {
						rrJob(j)
					}
					js = append(js, j)
				}
			}
			js = append(js, lbJob("C02/dispatch[ip_hash,N=4,2-byte client]", "VerifC02Dispatch", 3, 4, 2))
			for _, s := range []int64{0, 1, 2} {
				js = append(js, lbJob(fmt.Sprintf("C02/dispatch-after-history[%s,N=2,k=%d]", strategyNames[s], tierPick(tier, 4, 5)), "VerifC02History", s, tierPick(tier, 4, 5)))
			}
			js = append(js, threadJob(lbJob("C02/expiry-check-racing-a-fresh-ejection[the ejection is never lost: the backend stays out of rotation]", "VerifC04Race"), int(tierPick(tier, 2, 3))))
			for s := int64(0); s < 5; s++ {
				for n := int64(1); n <= tierPick(tier, 2, 3); n++ {
					if s == 0 && n > 2 {
						continue
					}
					j := lbJob(fmt.Sprintf("C02/request-after-request[%s,N=%d,2 requests, any time and fresh ejections between]", strategyNames[s], n), "VerifC02Sequence", s, n, 2)
					if s == 0 {
						rrJob(j)
					}
					js = append(js, j)
				}
			}
			return js
		},
		Assumptions: append([]string{"pool state is arbitrary: per backend any health flag, window end zero or any instant within 2^40 ns of now, any gauge 0..2^30, any weight 1..1024, any smooth-WRR running weight within +-2^20, any rotation counter < 2^63 (over-approximates every history of ejections, expiries, adds and removes)"}, commonAssumptions...),
		Bounds: map[string]string{
			"quick":    "pools of 1..4 backends, all five strategies, one dispatch decision from an arbitrary state; two decisions in a row (any time and fresh ejections between) for N<=2; ip_hash with every 3-byte client string for N<=3; ip_hash_consistent with one concrete client",
			"thorough": "pools of 1..5 backends (round_robin and ip_hash with a symbolic client N<=4); two decisions in a row for N<=3 (round_robin N<=2); histories of 5 events",
		},
		Outside: []string{"pools larger than 6", "client strings other than 3 bytes in this property (see C06)"},
	}
}

func propC05() *Prop {
	return &Prop{
		ID: "C05", Title: "Distribution contracts of round_robin, weighted_round_robin, least_connections",
		Jobs: func(tier string) []*sym.Job {
			var js []*sym.Job
			for n := int64(1); n <= tierPick(tier, 5, 8); n++ {
				if n == 7 {
					continue // 64-bit counter modulo 7: undecided after 5 min by every back end (z3, z3 5.1, cvc5, cvc5 bv-as-int); not claimed
				}
				rounds := int64(2)
				if n > 4 {
					rounds = 1
				}
				js = append(js, rrJob(job(fmt.Sprintf("C05a/round_robin-window[N=%d,rounds=%d]", n, rounds), "loadbalancer", "VerifC05RoundRobin", n, rounds)))
			}
			for n := int64(1); n <= 4; n++ { // N=5 does not finish within half an hour
				js = append(js, job(fmt.Sprintf("C05d/least_connections[N=%d]", n), "loadbalancer", "VerifC05LeastConn", n))
			}
			for n := int64(1); n <= tierPick(tier, 4, 5); n++ {
				js = append(js, rrJob(job(fmt.Sprintf("C05a/round_robin-with-ejected-members[N=%d,every subset]", n), "loadbalancer", "VerifC05RoundRobinEjected", n)))
			}
			js = append(js, threadJob(rrJob(lbJob("C05a/round_robin-concurrent-pickers-one-ejected[N=3,2 threads x 1]", "VerifC05RRConcurrentEjected", 3, 2, 1)), int(tierPick(tier, 2, 3))))
			for _, st := range []int64{0, 1, 2} {
				js = append(js, threadJob(lbJob(fmt.Sprintf("C05d/pick-overlapping-a-successful-probe-and-a-listing[%s,N=3]", strategyNames[st]), "VerifC05PickDuringBookkeeping", st), int(tierPick(tier, 2, 3))))
			}
			js = append(js, job("C05b/wrr-cycle[N=1,w<=6]", "loadbalancer", "VerifC05WRRCycle", 1, 6))
			js = append(js, job("C05b/wrr-cycle[N=2,w<=6]", "loadbalancer", "VerifC05WRRCycle", 2, 6))
			js = append(js, job(fmt.Sprintf("C05b/wrr-cycle[N=3,w<=%d]", tierPick(tier, 4, 5)), "loadbalancer", "VerifC05WRRCycle", 3, tierPick(tier, 4, 5)))
			if tier == "thorough" {
				js = append(js, job("C05b/wrr-cycle[N=4,w<=3]", "loadbalancer", "VerifC05WRRCycle", 4, 3))
			}
			js = append(js, neg(job("C05b/negative-twin", "loadbalancer", "VerifC05NegWRR")))
			js = append(js, threadJob(rrJob(lbJob("C05a/round_robin-concurrent-pickers[N=2,2 threads x 1]", "VerifC05RRConcurrent", 2, 2, 1)), 3))
			js = append(js, threadJob(rrJob(lbJob("C05a/round_robin-concurrent-pickers[N=2,2 threads x 2]", "VerifC05RRConcurrent", 2, 2, 2)), int(tierPick(tier, 2, 3))))
			if tier == "thorough" {
				js = append(js, threadJob(rrJob(lbJob("C05a/round_robin-concurrent-pickers[N=3,3 threads x 1]", "VerifC05RRConcurrent", 3, 3, 1)), 2))
			}
			js = append(js, job("C05c/wrr-bounded-drift-after-any-history[h=2 ops over add/remove/eject/recover/pick,T=6]", "loadbalancer", "VerifC05WRRHistory", 2, 6))
			js = append(js, job("C05c/wrr-bounded-drift-after-eject-recover[N=2,h=12,T=8]", "loadbalancer", "VerifC05WRRDrift", 2, 12, 8))
			js = append(js, job(fmt.Sprintf("C05c/wrr-bounded-drift-after-eject-recover[N=3,h=%d,T=%d]", tierPick(tier, 12, 16), tierPick(tier, 8, 10)), "loadbalancer", "VerifC05WRRDrift", 3, tierPick(tier, 12, 16), tierPick(tier, 8, 10)))
			for _, j := range js {
				if j.LoopBound == 0 {
					j.LoopBound = 64
				}
			}
			return js
		},
		Assumptions: append([]string{"round_robin: rotation counter < 2^63 (reachable-counter assumption: 292 years at 10^9 requests/s)", "picks go through the real findHealthyBackend; backends are eligible (healthy flag set) for the distribution clauses"}, commonAssumptions...),
		Bounds: map[string]string{
			"quick":    "round_robin N<=5 with any rotation counter (2 consecutive windows for N<=4); least_connections N<=4 with any gauges 0..2^30 and any health state; smooth WRR exact cycle from a fresh pool built by AddBackend: N<=2 with weights 0..6, N=3 with weights 0..4",
			"thorough": "round_robin N in {1..6, 8} (N=7 is not claimed: the modulo-7 query is undecided by every back end within 5 min); least_connections N<=4; WRR N=3 weights 0..5, N=4 weights 0..3; drift after histories of <= 2 operations and after 16 eject/recover steps",
		},
		Outside: []string{"bounded-drift clause after histories longer than 2 operations", "more than 2 (quick) / 3 (thorough) concurrent pickers, more than 2 picks per picker", "round_robin with N=7 and pools above the stated sizes"},
	}
}

func propC06() *Prop {
	return &Prop{
		ID: "C06", Title: "Client affinity (ip_hash) and minimal remapping (ip_hash_consistent)",
		Jobs: func(tier string) []*sym.Job {
			var js []*sym.Job
			add := func(j *sym.Job) {
				j.RandomModels = 3000
				j.LoopBound = 64
				j.FeasTimeout = 5 * time.Second
				js = append(js, j)
			}
			// unwinding bound derived from the code: j strictly increases by at least 1 per iteration
			// (q >= 1), so the loop of jumpHash(key, n+1) runs at most n+1 times: U = n+3
			for n := int64(1); n <= tierPick(tier, 4, 8); n++ {
				j := job(fmt.Sprintf("C06a/jumpHash[all 2^32 hashes,n=%d->%d]", n, n+1), "loadbalancer", "VerifC06Jump", n)
				add(j)
				j.LoopBound = int(n) + 3
			}
			for n := int64(1); n <= tierPick(tier, 2, 3); n++ {
				j := job(fmt.Sprintf("C06a/jumpHash[all 2^64 keys,n=%d->%d]", n, n+1), "loadbalancer", "VerifC06Jump64", n)
				add(j)
				j.LoopBound = int(n) + 3
			}
			maxL := tierPick(tier, 3, 5)
			for mode := int64(0); mode < 3; mode++ {
				for l := int64(0); l <= maxL; l++ {
					for n := int64(1); n <= 3; n++ {
						add(job(fmt.Sprintf("C06b/valid[ip_hash,N=%d,L=%d,mode=%d]", n, l, mode), "loadbalancer", "VerifC06Valid", 3, n, l, mode))
						if n <= 2 && l <= tierPick(tier, 2, 3) {
							add(job(fmt.Sprintf("C06b/valid[ip_hash_consistent,N=%d,L=%d,mode=%d]", n, l, mode), "loadbalancer", "VerifC06Valid", 4, n, l, mode))
						}
					}
					add(job(fmt.Sprintf("C06c/affinity[ip_hash,N=3,L=%d,mode=%d]", l, mode), "loadbalancer", "VerifC06Affinity", 3, 3, l, mode))
					if l <= 2 {
						add(job(fmt.Sprintf("C06c/affinity[ip_hash_consistent,N=2,L=%d,mode=%d]", l, mode), "loadbalancer", "VerifC06Affinity", 4, 2, l, mode))
					}
				}
			}
			for n := int64(1); n <= tierPick(tier, 2, 3); n++ {
				for l := int64(1); l <= 2; l++ {
					add(job(fmt.Sprintf("C06d/append[N=%d->%d,L=%d]", n, n+1, l), "loadbalancer", "VerifC06Append", n, l))
				}
			}
			add(lbJob("C06c/affinity-across-source-ports[ip_hash,N=5,RemoteAddr forms incl. bracketed IPv6]", "VerifC06RemoteAddrForms", 3, 5))
			add(lbJob("C06c/affinity-across-source-ports[ip_hash_consistent,N=5,RemoteAddr forms incl. bracketed IPv6]", "VerifC06RemoteAddrForms", 4, 5))
			for _, st := range []int64{3, 4} {
				add(lbJob(fmt.Sprintf("C06b/eject-after-traffic[%s,N=3]", strategyNames[st]), "VerifC06EjectAfterTraffic", st, 3))
				j := lbJob(fmt.Sprintf("C06b/eject-after-traffic[%s,N=70: beyond word-sized bookkeeping]", strategyNames[st]), "VerifC06EjectAfterTraffic", st, 70)
				add(j)
				j.LoopBound = 128
			}
			js = append(js, threadJob(lbJob("C06c/affinity-under-concurrent-requests[ip_hash,N=3]", "VerifC06AffinityConcurrent", 3, 3), int(tierPick(tier, 2, 3))))
			js = append(js, threadJob(lbJob("C06c/affinity-under-concurrent-requests[ip_hash_consistent,N=3]", "VerifC06AffinityConcurrent", 4, 3), int(tierPick(tier, 2, 3))))
			js = append(js, neg(job("C06c/negative-twin", "loadbalancer", "VerifC06NegAffinity")))
			return js
		},
		Assumptions: append([]string{"net.SplitHostPort on a symbolic string is modelled by its documented behaviour for strings without brackets (split at the single colon; error otherwise); bracketed IPv6 literals in RemoteAddr are outside the string model", "strings.Contains/Split, hash/fnv, net/http.Header run from their real SSA bodies / string-level models"}, commonAssumptions...),
		Bounds: map[string]string{
			"quick":    "jumpHash: every 32-bit hash for n=1..4 (and n+1), every 64-bit key for n<=2; strategies: every attribution string of 0..3 arbitrary bytes in X-Forwarded-For / X-Real-IP / RemoteAddr, pools <=3 (ip_hash) / <=2 (consistent), every flag pattern",
			"thorough": "jumpHash n<=8 (32-bit), n<=3 (64-bit); strings up to 5 bytes",
		},
		Outside: []string{"attribution strings longer than the bound", "bracketed RemoteAddr forms", "hash distribution quality"},
	}
}

func propC04() *Prop {
	return &Prop{
		ID: "C04", Title: "Health state machine: ejection threshold, unhealthy window, recovery",
		Jobs: func(tier string) []*sym.Job {
			var js []*sym.Job
			k := tierPick(tier, 4, 5)
			for _, s := range []int64{0, 2} {
				js = append(js, job(fmt.Sprintf("C04a/histories[%s,k=%d]", strategyNames[s], k), "loadbalancer", "VerifC04History", s, k))
			}
			if tier == "thorough" {
				for _, s := range []int64{1, 3, 4} {
					js = append(js, job(fmt.Sprintf("C04a/histories[%s,k=4]", strategyNames[s]), "loadbalancer", "VerifC04History", s, 4))
				}
			}
			for s := int64(0); s < 5; s++ {
				js = append(js, job(fmt.Sprintf("C04b/recovery[%s,N=1]", strategyNames[s]), "loadbalancer", "VerifC04Recovery", s, 1))
				if s <= 2 {
					j := job(fmt.Sprintf("C04b/recovery[%s,N=2]", strategyNames[s]), "loadbalancer", "VerifC04Recovery", s, 2)
					if s == 0 {
						rrJob(j)
					}
					js = append(js, j)
				}
			}
			for s := int64(0); s < tierPick(tier, 3, 5); s++ {
				js = append(js, lbJob(fmt.Sprintf("C04e/configured-window[%s, real createHealthChecker, active/passive on/off, threshold 1..3, any unhealthy_timeout]", strategyNames[s]), "VerifC04Config", s))
			}
			{
				n := tierPick(tier, 1100, 5000)
				j := lbJob(fmt.Sprintf("C04f/ejection-reported-with-%d-backends-known-to-the-metrics-collector", n), "VerifC04ManyBackends", n)
				j.LoopBound = int(n) + 50
				j.ValidatePaths = 0
				js = append(js, j)
			}
			js = append(js, lbJob("C04a/removed-and-re-added-under-the-same-name[the failure tally does not carry over]", "VerifC04ReAdd"))
			js = append(js, threadJob(lbJob("C04c/expiry-check-racing-a-fresh-ejection", "VerifC04Race"), int(tierPick(tier, 2, 3))))
			js = append(js, threadJob(lbJob("C04d/concurrent-failed-responses-at-the-threshold", "VerifC04ConcurrentFailures"), int(tierPick(tier, 2, 3))))
			for _, j := range js {
				j.MaxPaths = 400000
			}
			return js
		},
		Assumptions: append([]string{"one backend; unhealthy_threshold 1..3; any unhealthy window 1ns..2^40ns; events: failed response (any 5xx, through the real recordRequestMetrics), good response, probe start (real eligibility prologue), in-flight probe completes OK / fails (real processHealthCheckResponse / handleHealthCheckFailure), time passes (any amount), client request (real findHealthyBackend), admin+metrics read (real ListBackends / GetMetrics)", "a probe can complete only if it was started while the backend was eligible (as checkBackendHealth does)"}, commonAssumptions...),
		Bounds: map[string]string{
			"quick":    "every history of <= 4 events (round_robin and weighted_round_robin as representatives of the non-filtering / flag-filtering strategies); recovery after the window for all five strategies (N=1) and RR/LC/WRR (N=2)",
			"thorough": "histories of <= 5 events for RR/WRR, <= 4 for the other three strategies",
		},
		Outside: []string{"schedules of an expiry check racing a fresh ejection (thread mode, see C12)", "more than one backend in the history harness"},
	}
}

func lbJob(id, fn string, args ...int64) *sym.Job {
	j := job(id, "loadbalancer", fn, args...)
	j.Stubs = proxyStubs
	return j
}

var featNames = []string{"plain", "breaker", "limiter", "breaker+limiter", "passive", "breaker+passive", "limiter+passive", "breaker+limiter+passive"}

func propC13() *Prop {
	return &Prop{
		ID: "C13", Title: "Accounting: counters conserve requests; in-flight gauges return to zero",
		Jobs: func(tier string) []*sym.Job {
			var js []*sym.Job
			for f := int64(0); f < 8; f++ {
				for _, s := range []int64{0, 1} {
					if s == 1 && f != 0 && f != 4 {
						continue
					}
					k, arb := int64(2), int64(0)
					if f == 0 || f == 4 || tier == "thorough" {
						arb = 1
					}
					if tier == "thorough" && f == 0 {
						k = 3
					}
					j := lbJob(fmt.Sprintf("C13a/accounting[%s,%s,k=%d,arbitrary health=%d]", strategyNames[s], featNames[f], k, arb), "VerifC13Accounting", s, f, k, arb)
					j.MaxPaths = 400000
					js = append(js, j)
				}
			}
			js = append(js, threadJob(lbJob("C13b/two-interleaved-requests[gauge and mirror at quiescence]", "VerifC13Interleaved"), int(tierPick(tier, 2, 3))))
			js = append(js, threadJob(lbJob("C13b/request-in-flight-across-ejection-and-re-admission[gauge and mirror keep counting it]", "VerifC13InFlightAcrossEjection"), 1))
			if tier != "thorough" {
				jb := lbJob("C13a/accounting[round_robin,breaker,k=2,arbitrary health=1: the no-healthy-backend 503 under the breaker]", "VerifC13Accounting", 0, 1, 2, 1)
				jb.MaxPaths = 400000
				js = append(js, jb)
			}
			ji := lbJob("C13a/accounting[round_robin,passive,k=2,healthy,backend may send an interim 103 first]", "VerifC13Accounting", 0, 4+8, 2, 0)
			js = append(js, ji)
			js = append(js, lbJob("C13a/accounting[round_robin,passive,k=2,healthy,the client may have disconnected (cancelled request context)]", "VerifC13Accounting", 0, 4+16, 2, 0))
			js = append(js, lbJob("C13a/accounting[least_connections,breaker,k=2,healthy,the client may have disconnected]", "VerifC13Accounting", 1, 1+16, 2, 0))
			j3 := lbJob("C13a/accounting[round_robin,breaker,k=3,healthy,success_threshold 1..2: reaches the half-open 429]", "VerifC13Accounting", 0, 1, 3, 0)
			j3.MaxPaths = 400000
			js = append(js, j3)
			return js
		},
		Assumptions: append([]string{"(*httputil.ReverseProxy).ServeHTTP is replaced by a model over a scripted backend: forward status 200..599 + body | default error handler 502 | abort after the headers with panic(http.ErrAbortHandler); natively the REAL ReverseProxy runs over a scripted RoundTripper", "the client connection is a recording ResponseWriter implementing net/http's documented contract; the harness recovers handler panics like net/http's server", "two backends in arbitrary health state (flag, window end zero or within 2^40ns of now)"}, commonAssumptions...),
		Bounds: map[string]string{
			"quick":    "every sequence of <= 2 requests x every backend behaviour x all 8 on/off combinations of breaker / limiter / passive checks, round_robin (and least_connections for plain/passive), 2 backends (arbitrary health state for plain/passive, healthy otherwise); counters checked after every request",
			"thorough": "<= 3 requests without optional features; arbitrary health state for every feature combination",
		},
		Outside: []string{"concurrent clients (interleaved decrement / mirror update)", "more than 2 backends", "1000-backend metrics cap"},
	}
}

func propC01() *Prop {
	return &Prop{
		ID: "C01", Title: "End-to-end proxy transparency (requests, responses, streaming) - Helios-owned layers",
		Jobs: func(tier string) []*sym.Job {
			var js []*sym.Job
			js = append(js, lbJob(fmt.Sprintf("C01a/writer-transparency[k=%d]", tierPick(tier, 3, 4)), "VerifC01Writer", tierPick(tier, 3, 4)))
			js = append(js, lbJob("C01c/no-rewriting-hooks", "VerifC03Timeouts"))
			js = append(js, job("C01b/middleware-transparency", "logging", "VerifC01Middleware"))
			js = append(js, mainJob("C01d/full-handler-stack[plugins -> middleware -> balancer -> scripted backend]", "VerifStack", 0, 2, 0))
			js = append(js, mainJob("C01d/full-handler-stack[backend sends 0..2 interim 103 responses with their own headers]", "VerifStack", 0, 1, 1))
			js = append(js, mainJob("C01d/full-handler-stack[breaker enabled: every backend status incl. 5xx, refused, aborted]", "VerifStack", 1, 2, 0))
			return js
		},
		Assumptions: append([]string{"claimed for the Helios-owned layers between net/http and httputil.ReverseProxy only: the status-capturing responseWriter, RequestContextMiddleware, and the per-backend proxy construction; hop-by-hop handling, framing, HTTP/2 and the Transport are the Go standard library and are trusted", "the client connection is a recording ResponseWriter implementing net/http's documented contract (first final WriteHeader wins and freezes the header snapshot, Write/Flush imply 200, 1xx are interim)", "flush requests are issued through the real http.NewResponseController(...).Flush() as ReverseProxy does"}, commonAssumptions...),
		Bounds: map[string]string{
			"quick":    "every sequence of <= 3 calls over {Header Set/Add/Del on 3 keys with any 1-byte value, WriteHeader(100..599), Write(0..2 bytes), flush request, Hijack}; middleware: every on/off combination, default/custom header names, client-supplied or absent IDs",
			"thorough": "<= 4 calls",
		},
		Outside: []string{"bytes on the wire below the ResponseWriter interface (net/http, httputil, Transport): not encodable", "request body streaming"},
	}
}

func propC03() *Prop {
	return &Prop{
		ID: "C03", Title: "Fault containment: no backend/client fault can wedge or crash the proxy - handler level",
		Jobs: func(tier string) []*sym.Job {
			var js []*sym.Job
			for f := int64(0); f < 8; f++ {
				for _, s := range []int64{0, 1} {
					if s == 1 && f != 0 && f != 7 {
						continue
					}
					// thorough: three faulty exchanges for the single-feature sets and breaker+passive; two for the larger products
					k := int64(2)
					if tier == "thorough" && s == 0 && (f == 0 || f == 1 || f == 4 || f == 5) {
						k = 3
					}
					js = append(js, lbJob(fmt.Sprintf("C03/fault-sequences[%s,%s,k=%d]", strategyNames[s], featNames[f], k), "VerifC03Faults", s, f, k))
				}
			}
			for s := int64(0); s < 3; s++ {
				j := job(fmt.Sprintf("C03/no-permanent-degradation[%s,N=2: an ejected backend serves again after its window while the other one stays healthy]", strategyNames[s]), "loadbalancer", "VerifC04Recovery", s, 2)
				if s == 0 {
					rrJob(j)
				}
				js = append(js, j)
			}
			js = append(js, threadJob(lbJob("C03/concurrent-failed-responses[a 5xx storm does not crash the proxy: no unsynchronised map access]", "VerifC04ConcurrentFailures"), int(tierPick(tier, 2, 3))))
			js = append(js, job("C03/histories[health events incl. in-flight probes, traffic and admin reads: nothing wedges; k=4]", "loadbalancer", "VerifC04History", 0, 4))
			js = append(js, lbJob("C03/timeouts-never-disabled", "VerifC03Timeouts"))
			js = append(js, mainJob("C03/full-handler-stack[breaker+limiter+passive]", "VerifStack", 7, 2, 0))
			return js
		},
		Assumptions: append([]string{"fault alphabet at the handler interface: backend answers any status 200..599 (5xx storm), connection refused (default error handler -> 502), response aborted mid-body (panic(http.ErrAbortHandler)); ReverseProxy.ServeHTTP replaced by the scripted model, natively the real ReverseProxy over a scripted RoundTripper", "network-level behaviour (hangs, slow bodies, resets, the latency bound itself) happens inside net/http's Transport and is trusted to the strictly positive timeouts established by C03/timeouts-never-disabled", "timeout settings up to 2^31 seconds"}, commonAssumptions...),
		Bounds: map[string]string{
			"quick":    "every sequence of <= 2 faulty exchanges with time passing, all 8 on/off combinations of breaker / limiter / passive checks, round_robin (and least_connections for none/all), 2 backends; then recovery within 2 requests",
			"thorough": "<= 3 faulty exchanges for the plain / breaker / passive / breaker+passive feature sets, <= 2 for the other four",
		},
		Outside: []string{"refused/hung/slow connections at socket level, client disconnects (inside net/http)", "concurrent fault sequences (see C12)"},
	}
}

func propC16() *Prop {
	return &Prop{
		ID: "C16", Title: "Request-ID / trace-ID propagation is consistent end to end",
		Jobs: func(tier string) []*sym.Job {
			many := job(fmt.Sprintf("C16b/many-identifiers-all-distinct[%d generations, random source never repeating]", tierPick(tier, 1200, 20000)), "logging", "VerifC16ManyIDs", tierPick(tier, 1200, 20000))
			many.LoopBound = int(tierPick(tier, 1200, 20000)) + 50
			many.ValidatePaths = 0
			return []*sym.Job{
				many,
				job("C16a/propagation", "logging", "VerifC16Propagation"),
				job("C16b/identifier-injectivity", "logging", "VerifC16Unique"),
				job("C16b/uniqueness-across-requests[same client request ID]", "logging", "VerifC16TwoRequests"),
				mainJob("C16c/every-response-path[full handler stack: proxied, 401, 413, 429, 502, 503]", "VerifStack", 3, 2, 0),
				mainJob("C16c/every-response-path[backend may send up to two interim 103 responses first]", "VerifStack", 0, 1, 1),
				neg(job("C16b/negative-twin", "logging", "VerifC16NegUnique")),
			}
		},
		Assumptions: append([]string{"crypto/rand.Read fills the buffer with arbitrary bytes and returns no error (documented never to fail on Linux); uniqueness across requests is reduced to: distinct 12-byte draws give distinct identifiers (injectivity, decided for all 2^192 pairs of draws)", "client-supplied ID values are what net/http's parser can deliver: 1..3 printable ASCII bytes without surrounding white space, or absent", "downstream handler: a backend stub, or http.Error with 429 / 503 / 413"}, commonAssumptions...),
		Bounds:      map[string]string{"quick": "all 4 enabled/disabled combinations x default/custom header names x client value absent or any 1..3 printable bytes x 4 downstream response kinds", "thorough": "same"},
		Outside:     []string{"10^5 concurrent generations (reduced to injectivity + crypto/rand's contract; 1200 / 20000 sequential generations with a never-repeating random source are executed)", "the example request-id plugin overriding the middleware's value", "timestamp fallback when crypto/rand fails"},
	}
}

func propC14() *Prop {
	return &Prop{
		ID: "C14", Title: "size_limit plugin: bodies are bounded, everything within bounds is untouched",
		Jobs: func(tier string) []*sym.Job {
			var js []*sym.Job
			for k := int64(1); k <= tierPick(tier, 4, 5); k++ {
				js = append(js, job(fmt.Sprintf("C14a/response-side[k=%d]", k), "plugins", "VerifC14Response", k))
			}
			{
				js = append(js, job("C14a/response-side[two exchanges through one plugin instance]", "plugins", "VerifC14Reuse"))
			}
			js = append(js, job("C14b/request-side", "plugins", "VerifC14Request"))
			js = append(js, job("C14c/options", "plugins", "VerifC14Options"))
			js = append(js, neg(job("C14/negative-twin", "plugins", "VerifC14Neg")))
			return js
		},
		Assumptions: append([]string{"handler alphabet is that of a well-behaved handler: at most one final WriteHeader, before its first Write; writes of 0..3 bytes; limits 1..8 (response) / 1..4 (request) - every ordering of cumulative size and limit is reachable", "the client connection is a recording ResponseWriter implementing net/http's documented contract; http.MaxBytesReader runs from its real SSA body over a chunk-delivering body stub"}, commonAssumptions...),
		Bounds: map[string]string{
			"quick":    "every handler script of <= 4 calls over {WriteHeader(200..599), Write(0..3 bytes), Flush}; request bodies of 0..5 bytes, declared or chunked, limits 1..4; option values over all 64-bit ints typed int/int64",
			"thorough": "scripts of <= 5 calls",
		},
		Outside: []string{"float64-typed option values", "interim 1xx responses through the plugin", "bodies larger than a few bytes (size relations are covered, absolute sizes are not)"},
	}
}

func propC15() *Prop {
	return &Prop{
		ID: "C15", Title: "gzip plugin: what the client decodes is exactly what the backend sent",
		Jobs: func(tier string) []*sym.Job {
			var js []*sym.Job
			for w := int64(0); w <= tierPick(tier, 2, 3); w++ {
				j := job(fmt.Sprintf("C15/wire-view[writes=%d,level=5]", w), "plugins", "VerifC15Wire", w, 5)
				j.MaxPaths = 2000000
				js = append(js, j)
			}
			for lvl := int64(-1); lvl <= 9; lvl++ {
				if lvl == 5 {
					continue
				}
				js = append(js, job(fmt.Sprintf("C15/wire-view[writes=1,level=%d]", lvl), "plugins", "VerifC15Wire", 1, lvl))
			}
			js = append(js, neg(job("C15/negative-twin", "plugins", "VerifC15Neg")))
			for w := int64(1); w <= tierPick(tier, 3, 4); w++ {
				js = append(js, job(fmt.Sprintf("C15/buffer-cap-and-reuse[2 requests, <=%d writes of 0..5 bytes, cap scaled to 8 bytes]", w), "plugins", "VerifC15Cap", w))
			}
			return js
		},
		Patches:     []sym.SourcePatch{{File: "internal/plugins/compression.go", Old: "MaxCompressionBufferSize = 10 * 1024 * 1024", New: "MaxCompressionBufferSize = 8", Why: "the 10 MiB buffering cap is scaled to 8 bytes so that the streaming-fallback logic is reachable with small symbolic bodies; the logic compares sizes with the constant and does not otherwise depend on its value"}},
		Assumptions: append([]string{"compress/gzip is an abstract encoder: NewWriterLevel fails iff level is outside [-2,9]; Close emits exactly one opaque token carrying the buffered content (DEFLATE itself is not encoded); natively the real gzip runs and the harness decodes with gzip.NewReader", "the client sees the header snapshot frozen at the first WriteHeader (net/http's documented contract), the body bytes, and the status", "bytes.Buffer runs from its real SSA body"}, commonAssumptions...),
		Bounds: map[string]string{
			"quick":    "9 Accept-Encoding spellings x 4 content types x already-encoded or not x declared Content-Length or not x explicit/implicit WriteHeader (status 200..599) x compression levels -1..9 x min_size 0..4 x bodies written in <= 2 writes of 0..2 bytes",
			"thorough": "<= 3 writes",
		},
		Outside: []string{"the absolute value of the 10 MiB cap (the fallback logic is checked with the cap scaled to 8 bytes)", "DEFLATE correctness", "q-values"},
	}
}

func mainJob(id, fn string, args ...int64) *sym.Job {
	return &sym.Job{ID: id, Harness: mod + "/cmd/helios." + fn, Args: args, ValidatePaths: 2, Stubs: proxyStubs}
}

func propC17() *Prop {
	return &Prop{
		ID: "C17", Title: "Plugin chain: configured order, rejection stops the chain, startup fails closed",
		Jobs: func(tier string) []*sym.Job {
			var js []*sym.Job
			for k := int64(1); k <= tierPick(tier, 3, 4); k++ {
				js = append(js, job(fmt.Sprintf("C17a/order-and-gating[k=%d]", k), "plugins", "VerifC17Order", k))
			}
			for k := int64(1); k <= tierPick(tier, 2, 3); k++ {
				js = append(js, job(fmt.Sprintf("C17b/fail-closed[k=%d]", k), "plugins", "VerifC17FailClosed", k))
			}
			for l := int64(0); l <= tierPick(tier, 2, 3); l++ {
				for hl := int64(0); hl <= tierPick(tier, 2, 3); hl++ {
					js = append(js, job(fmt.Sprintf("C17b/custom-auth-gate[every configured key of %d bytes x no key or every presented key of %d bytes]", l, hl), "plugins", "VerifC17AuthGate", l, hl))
				}
			}
			js = append(js, job("C17a/same-configuration-built-twice[order kept, configuration untouched]", "plugins", "VerifC17BuildTwice"))
			js = append(js, mainJob("C17b/buildHandler-propagates-the-error", "VerifC18Starts", 0))
			js = append(js, mainJob("C17a/rejection-through-the-real-handler-stack", "VerifStack", 0, 2, 0))
			js = append(js, neg(job("C17/negative-twin", "plugins", "VerifC17Neg")))
			for _, j := range js {
				j.MaxPaths = 1000000
			}
			return js
		},
		Assumptions: append([]string{"the registry is populated by the plugins package's real init functions (executed by the engine) plus three tracing probe plugins registered by the harness", "rejecting plugins: custom-auth (X-API-Key right/wrong), size_limit (declared Content-Length at / above the limit)"}, commonAssumptions...),
		Bounds: map[string]string{
			"quick":    "every chain of 1..3 entries drawn from {probeA, probeB, probeC, custom-auth, size_limit, headers, logging, request-id} x key right/wrong x body within/over limit; fail-closed: chains of <= 2 with one of 10 defective entries at any position; buildHandler with an unknown plugin",
			"thorough": "chains up to 4 (order) / 3 (fail closed)",
		},
		Outside: []string{"chains longer than the bound", "gzip in the ordering harness (covered by C15)"},
	}
}

func propC18() *Prop {
	return &Prop{
		ID: "C18", Title: "Configuration loading: rejects exactly the invalid, accepts all documented forms",
		Jobs: func(tier string) []*sym.Job {
			var js []*sym.Job
			names := []string{"all sections (binary enums)", "backends", "server+tls", "timeouts", "load_balancer", "health_checks", "rate_limit+circuit_breaker", "metrics+admin_api", "logging"}
			for s := int64(1); s <= 8; s++ {
				js = append(js, job("C18a/validator-vs-documented["+names[s]+"]", "config", "VerifC18Validate", s))
			}
			// (all sections at once with every enum reduced to valid/invalid is > 4e6 paths: not registered; the
			// sections are validated independently of each other except for the first-error return order)
			_ = names[0]
			js = append(js, job("C18c/documented-log-levels-select-their-level[omitted = info]", "logging", "VerifC18LogLevels"))
			js = append(js, job("C18b/yaml-typed-plugin-options", "plugins", "VerifC18PluginOptions"))
			js = append(js, job("C18b/plugin-config-block-omitted-empty-or-partial[6 built-ins x 4 forms]", "plugins", "VerifC18PluginOmissions"))
			js = append(js, mainJob("C18c/accepted-config-starts", "VerifC18Starts", tierPick(tier, 0, 1)))
			js = append(js, neg(job("C18/negative-twin", "config", "VerifC18Neg")))
			return js
		},
		Assumptions: append([]string{"reference predicate written from README.md and the comments of the shipped helios.yaml; values the code accepts without documentation (log level fatal, format console, negative breaker max_requests) are don't-care", "YAML parsing itself is not encoded: the harness constructs the Config / option maps with the Go types yaml.v3 documents (integer scalar -> int, float -> float64)", "servers are constructed but not started; goroutines spawned by constructors are recorded, not scheduled"}, commonAssumptions...),
		Bounds: map[string]string{
			"quick":    "each configuration section with every integer field an arbitrary 64-bit value and every enum over its documented values + empty + an undocumented one; plugin option typing; accepted => starts over 216 symbolic path classes",
			"thorough": "same sections; the start-up harness additionally varies health checks, websocket pool and request-ID options",
		},
		Outside: []string{"YAML syntax, file loading", "TLS file existence"},
	}
}

func propC10() *Prop {
	return &Prop{
		ID: "C10", Title: "Admin API access control: bearer token and IP allow/deny fail closed",
		Jobs: func(tier string) []*sym.Job {
			var js []*sym.Job
			lens := []int64{0, 6, 7, 9, 10, 11}
			if tier == "thorough" {
				lens = []int64{0, 1, 5, 6, 7, 8, 9, 10, 11, 12, 14}
			}
			for _, l := range lens {
				js = append(js, job(fmt.Sprintf("C10a/bearer[Authorization of %d bytes]", l), "adminapi", "VerifC10Bearer", l))
			}
			shapes := [][2]int64{{0, 0}, {1, 0}, {0, 1}, {1, 1}, {2, 0}, {0, 2}}
			// (lists of 2+1 / 1+2 / 2+2 entries: 1.6e5 .. 4e6 paths, 45 minutes and more - not registered)
			for _, sh := range shapes {
				j := job(fmt.Sprintf("C10b/filter-logic[allow=%d,deny=%d]", sh[0], sh[1]), "adminapi", "VerifC10Filter", sh[0], sh[1], 1)
				j.MaxPaths = 3000000
				js = append(js, j)
			}
			js = append(js, job("C10b/filter-through-the-public-constructor[10 list entries (incl. single addresses in IPv4-mapped and IPv6 spelling) x 10 x 10 peer spellings incl. IPv4-mapped and zoned IPv6]", "adminapi", "VerifC10Catalogue"))
			jt := job("C10a/token-as-loaded-from-the-file[7 tokens incl. $-syntax x 6 presented values, real LoadConfig + NewLoadBalancer + NewMux]", "adminapi", "VerifC10LoadedToken")
			jt.Stubs = configStubs
			js = append(js, jt)
			js = append(js, job("C10c/header-independence", "adminapi", "VerifC10Headers"))
			js = append(js, job("C10d/fail-closed", "adminapi", "VerifC10FailClosed"))
			return js
		},
		Assumptions: append([]string{"http.ServeMux is modelled as exact-path dispatch over the registered patterns (Helios registers only exact, slash-free-suffix patterns); encoding/json Decode/Encode are structure-only models (decode fills the target struct from the concrete JSON text; encode writes an opaque body)", "net.ParseIP / ParseCIDR on concrete text are evaluated natively; a symbolic peer is a marker string that the ParseIP model resolves to symbolic address bytes of the documented shape (16-byte IPv4-in-IPv6, 16-byte IPv6, or nil); IPNet.Contains and IP.To4 run from their real SSA bodies", "networks: IPv4 prefixes {0,8,24,31,32}, IPv6 prefixes {0,64,127,128}, arbitrary base bytes (IPv6: six symbolic bytes, the rest zero); IPv4-mapped IPv6 network entries excluded (Go treats them as the embedded IPv4 network)", "the balancer behind the API is built by the real NewLoadBalancer", "net/netip values (if the code under test uses them) are concrete and evaluated by the real library through a reflective bridge"}, commonAssumptions...),
		Bounds: map[string]string{
			"quick":    "Authorization values of 0/6/7/9/10/11 arbitrary bytes (token is 3 bytes: the exact value has 10), present/absent, optional valid second value, 7 paths x 3 methods x 4 bodies; filter lists up to 2 entries in total; peers IPv4 / IPv6 / IPv4-mapped / unparsable",
			"thorough": "more Authorization lengths (0..14 bytes); same lists",
		},
		Outside: []string{"full 16 symbolic bytes for IPv6 (sparse bytes only)", "ServeMux pattern matching beyond exact paths", "JSON syntax"},
	}
}

func propC11() *Prop {
	return &Prop{
		ID: "C11", Title: "Runtime reconfiguration is atomic and consistent under traffic",
		Jobs: func(tier string) []*sym.Job {
			var js []*sym.Job
			for k := int64(2); k <= tierPick(tier, 3, 4); k++ {
				j := lbJob(fmt.Sprintf("C11a/model-based-histories[k=%d]", k), "VerifC11History", k)
				j.MaxPaths = 3000000
				js = append(js, j)
			}
			for s := int64(0); s < 5; s++ {
				j := lbJob(fmt.Sprintf("C11a/remove-after-traffic[%s, 2..4 backends shrinking by one or two, 1..2 clients]", strategyNames[s]), "VerifC11RemoveAfterTraffic", s)
				if s == 0 {
					rrJob(j)
				}
				js = append(js, j)
			}
			for k := int64(1); k <= tierPick(tier, 2, 3); k++ {
				js = append(js, job(fmt.Sprintf("C11c/admin-api-histories[k=%d, names with leading/trailing blanks]", k), "adminapi", "VerifC11API", k))
			}
			for i, n := range []string{"SetStrategy || AddBackend", "SetStrategy || RemoveBackend", "AddBackend || RemoveBackend", "SetStrategy || SetStrategy", "ListBackends || RemoveBackend (4 backends)", "ListBackends || AddBackend (4 backends)", "ListBackends || RemoveBackend of a name registered twice", "two requests and a listing || RemoveBackend of a name registered twice"} {
				js = append(js, threadJob(lbJob("C11b/atomicity["+n+"]", "VerifC11Atomic", int64(i)), int(tierPick(tier, 2, 3))))
			}
			return js
		},
		Assumptions: append([]string{"operations go through the balancer's real AddBackend / RemoveBackend / SetStrategy / ListBackends / findHealthyBackend (the admin handlers' JSON layer is covered structurally by C10); reference model: a list of (name, address, weight) records", "names from {a,b,c}, weights 0..5, parsable or unparsable address, six strategy names incl. an unknown one; all backends healthy"}, commonAssumptions...),
		Bounds: map[string]string{
			"quick":    "every history of <= 3 operations over {add, remove, set_strategy, request}, state compared with the model after every step",
			"thorough": "<= 4 operations",
		},
		Outside: []string{"more than two concurrent admin actors", "in-flight proxied requests during a change"},
	}
}

func propC20() *Prop {
	return &Prop{
		ID: "C20", Title: "WebSocket tunnelling and connection-pool invariants - pool and Hijack pass-through",
		Jobs: func(tier string) []*sym.Job {
			var js []*sym.Job
			for k := int64(2); k <= 4; k++ { // k=5: ~7e4 paths, half an hour
				j := lbJob(fmt.Sprintf("C20a/pool-histories[k=%d]", k), "VerifC20Pool", k)
				j.MaxPaths = 3000000
				js = append(js, j)
			}
			js = append(js, threadJob(lbJob("C20a/pool-as-the-balancer-builds-it[real validation + setupWebSocketPool, max_idle 1..3, max_active 0..4, idle_timeout 1..600 s]", "VerifC20Wiring"), 1))
			js = append(js, lbJob("C20b/hijack[balancer writer]", "VerifC20Hijack"))
			js = append(js, mainJob("C20b/upgrade-requests-through-the-real-handler-stack[no timer on the tunnel's context, whatever server.timeouts.handler; plugins apply]", "VerifStack", 0, 1, 0))
			for i, n := range []string{"cleanup || Put", "Get || Get", "Put || Shutdown", "first Put of a new backend || Shutdown", "first Put || first Put of one new backend", "cleanup of the last stale connection || Shutdown", "cleanup of the last stale connection || Get and Stats", "Get discarding two stale connections || Put"} {
				js = append(js, threadJob(lbJob("C20c/concurrent["+n+"]", "VerifC20Concurrent", int64(i)), int(tierPick(tier, 2, 3))))
			}
			for k := int64(1); k <= 3; k++ {
				js = append(js, job(fmt.Sprintf("C20b/hijack[plugin wrappers, depth %d]", k), "plugins", "VerifC20PluginHijack", k))
			}
			return js
		},
		Assumptions: append([]string{"claimed for the pool (Get/Put/Close/cleanup/Shutdown on the real WebSocketPool, built directly so that the cleanup goroutine is not started) and for Hijack reaching the connection through the balancer's writer and every plugin wrapper; the tunnel's byte relay is net/http/httputil over real sockets and is not encodable", "connections are stub objects with a closed flag and a ghost holder; max_idle 0..3, any idle_timeout 1ns..2^40ns, two backends"}, commonAssumptions...),
		Bounds: map[string]string{
			"quick":    "every history of <= 4 operations over {put (fresh or held), get, close, time passes (any amount), cleanup, shutdown}; Hijack through wrapper stacks of depth <= 3",
			"thorough": "same histories; concurrent pairs with <= 3 pre-emptions",
		},
		Outside: []string{"the WebSocket byte relay itself", "concurrent pool use (pairwise under C12)"},
	}
}

func threadJob(j *sym.Job, preempt int) *sym.Job {
	j.Threads = true
	j.Preempt = preempt
	j.ValidatePaths = 0
	return j
}

var pairNames = []string{
	"NextBackend[weighted_round_robin] || MarkBackendUnhealthy", "NextBackend[ip_hash] || MarkBackendUnhealthy", "NextBackend[ip_hash_consistent] || MarkBackendUnhealthy",
	"NextBackend[round_robin] || MarkBackendUnhealthy", "NextBackend[least_connections] || gauge update", "ListBackends || gauge update", "GetMetrics || GetMetrics",
	"GetMetrics || RecordBackendRequest+UpdateBackendHealth+UpdateBackendConnections", "Allow || Allow (existing bucket)", "Allow || Allow (first requests)", "Allow || cleanup",
	"Execute || Execute (LB callback installed)", "Execute || State+Counts", "pool Get || Put", "pool Put || cleanup", "pool Get || Shutdown", "AddBackend || NextBackend+ListBackends",
	"RemoveBackend || NextBackend+ListBackends", "SetStrategy || NextBackend+ListBackends", "IsBackendHealthy(expiry) || MarkBackendUnhealthy", "ServeHTTP || ServeHTTP", "RecordRequest/Response || GetMetrics",
	"ListBackends || MarkBackendUnhealthy (after an expired window)", "Execute || Execute inside a half-open episode (max_requests 3)",
	"NextBackend || NextBackend [round_robin]", "NextBackend || NextBackend [least_connections]", "NextBackend || NextBackend [weighted_round_robin]",
	"NextBackend || NextBackend [ip_hash]", "NextBackend || NextBackend [ip_hash_consistent]",
}

var metricsOps = []string{"GetMetrics", "RecordRequest", "RecordResponse", "RecordBackendRequest", "UpdateBackendHealth", "UpdateBackendConnections", "SyncBackendConnections", "RecordRateLimitedRequest", "UpdateCircuitBreakerState"}
var lbOps = []string{"request served 200", "request answered 503 (passive checks)", "AddBackend", "RemoveBackend", "SetStrategy", "ListBackends", "probe fails", "probe succeeds", "GetMetrics"}
var breakerOps = []string{"Execute(ok)", "Execute(fail)", "State", "Counts", "GetMetrics"}

func propC12() *Prop {
	return &Prop{
		ID: "C12", Title: "Concurrency safety: no data races, panics or deadlocks - pairwise, at lock/atomic granularity",
		Jobs: func(tier string) []*sym.Job {
			var js []*sym.Job
			for i, n := range pairNames {
				js = append(js, threadJob(lbJob(fmt.Sprintf("C12/pair[%s]", n), "VerifC12Pair", int64(i)), int(tierPick(tier, 2, 3))))
			}
			for i, n := range []string{"pool cleanup || Put", "pool Get || Get", "pool Put || Shutdown", "pool first Put of a new backend || Shutdown", "pool first Put || first Put of one new backend", "pool cleanup of the last stale connection || Shutdown", "pool cleanup of the last stale connection || Get and Stats", "pool Get discarding two stale connections || Put"} {
				js = append(js, threadJob(lbJob("C12/pair["+n+" (real constructor)]", "VerifC20Concurrent", int64(i)), int(tierPick(tier, 2, 3))))
			}
			for i, a := range metricsOps {
				for jx := i; jx < len(metricsOps); jx++ {
					for warm := int64(0); warm < 2; warm++ {
						js = append(js, threadJob(lbJob(fmt.Sprintf("C12/metrics[%s || %s,%s]", a, metricsOps[jx], []string{"first sight of backend and breaker", "known backend and breaker"}[warm]), "VerifC12Metrics", int64(i), int64(jx), warm), int(tierPick(tier, 2, 3))))
					}
				}
			}
			for i, a := range lbOps {
				for jx := i; jx < len(lbOps); jx++ {
					js = append(js, threadJob(lbJob(fmt.Sprintf("C12/balancer[%s || %s]", a, lbOps[jx]), "VerifC12LB", int64(i), int64(jx)), 2))
				}
			}
			for i, a := range breakerOps {
				for jx := i; jx < len(breakerOps); jx++ {
					for pre := int64(0); pre < 3; pre++ {
						js = append(js, threadJob(lbJob(fmt.Sprintf("C12/breaker[%s || %s,from %s]", a, breakerOps[jx], []string{"closed one failure short of tripping", "open with the timeout elapsed", "half-open with budget left"}[pre]), "VerifC12Breaker", int64(i), int64(jx), pre), 2))
					}
				}
			}
			// lock discipline along histories (a lock leaked on one path wedges every later operation): the C04 event histories, deadlock detection only matters here
			js = append(js, job("C12/histories[health events incl. a probe in flight across an ejection, then traffic and admin reads; k=4]", "loadbalancer", "VerifC04History", 0, 4))
			for st := int64(0); st < 5; st++ {
				js = append(js, threadJob(lbJob(fmt.Sprintf("C12/pair[pick || ejection of the last healthy backend, %s]", strategyNames[st]), "VerifC12PickVsLastEjection", st), int(tierPick(tier, 2, 3))))
			}
			js = append(js, threadJob(lbJob("C12/pair[health-check tick || Stop]", "VerifC19Stop", 0, 1, 1), 2)) // 3 pre-emptions exceed 200000 paths
			js = append(js, threadJob(lbJob("C12/pair[Stop || Stop]", "VerifC19Stop", 1, 1, 0), int(tierPick(tier, 2, 3))))
			js = append(js, threadJob(lbJob("C12/pair[Stop || probe in flight to a hung backend]", "VerifC19Stop", 3, 1, 0), 2))
			js = append(js, threadJob(lbJob("C12/Stop; late tick; Stop", "VerifC19Stop", 2, 1, 0), 1))
			js = append(js, threadJob(job("C12/pair[breaker Execute x2 at the open->half-open boundary]", "circuitbreaker", "VerifC07Concurrent", 2), 2))
			js = append(js, threadJob(job("C12/pair[breaker Execute || Execute, closed with an expired counting window (the reset path)]", "circuitbreaker", "VerifC07ConcurrentFailuresAfterExpiredWindow"), 2))
			return js
		},
		Assumptions: append([]string{"thread mode: every simulated goroutine yields before each mutex acquisition, each sync/atomic and sync.Map operation, WaitGroup operation, context cancel/Done, go statement and thread exit; the scheduler's choice is a decision of the exploration, bounded by a pre-emption budget; sequential consistency between yield points", "built-in assertions on every schedule: data race = two accesses to one memory cell, at least one a write, not both atomic, unordered by happens-before (vector clocks over mutex release/acquire, atomics, WaitGroup, fork/join, channel close); deadlock = unfinished threads, none enabled; WaitGroup misuse = Add from zero while a Wait is in progress; unrecovered panic", "race counterexamples are replayed natively as the same two operations under `go test -race` (real goroutines; the race detector's happens-before analysis does not need the exact schedule)"}, commonAssumptions...),
		Bounds: map[string]string{
			"quick":    "24 operation pairs from small pre-states, 2 threads (+ goroutines the code itself spawns), <= 2 pre-emptions",
			"thorough": "<= 3 pre-emptions",
		},
		Outside: []string{"more than two top-level threads, 8-64 goroutine mixes", "schedules below lock/atomic granularity, weak memory", "goroutines inside net/http"},
	}
}

func propC19() *Prop {
	return &Prop{
		ID: "C19", Title: "Graceful shutdown completes, drains requests and stops probing - balancer side",
		Jobs: func(tier string) []*sym.Job {
			var js []*sym.Job
			for n := int64(1); n <= tierPick(tier, 2, 2); n++ {
				for ticks := int64(0); ticks <= tierPick(tier, 1, 2); ticks++ {
					if n == 2 && ticks > 0 {
						continue // two backends and a firing ticker: > 200000 schedules at two pre-emptions
					}
					pre := 2 // three pre-emptions exceed 200000 schedules as soon as a tick or a second backend is involved
					if tier == "thorough" && n == 1 && ticks == 0 {
						pre = 3
					}
					js = append(js, threadJob(lbJob(fmt.Sprintf("C19/health-check-goroutine-racing-Stop[N=%d,ticks<=%d]", n, ticks), "VerifC19Stop", 0, n, ticks), pre))
				}
			}
			js = append(js, threadJob(lbJob("C19/Stop-with-probe-in-flight-to-a-hung-backend[N=1]", "VerifC19Stop", 3, 1, 0), int(tierPick(tier, 2, 3))))
			js = append(js, threadJob(lbJob("C19/Stop-with-probe-in-flight-to-a-healthy-backend[N=1]", "VerifC19Stop", 4, 1, 0), int(tierPick(tier, 2, 3))))
			if tier == "thorough" {
				js = append(js, threadJob(lbJob("C19/Stop-with-probe-in-flight-to-a-hung-backend[N=2]", "VerifC19Stop", 3, 2, 0), 2))
				js = append(js, threadJob(lbJob("C19/Stop-with-probe-in-flight-to-a-hung-backend[N=1,1 tick]", "VerifC19Stop", 3, 1, 1), 2))
			}
			js = append(js, threadJob(lbJob("C19/Stop-racing-Stop", "VerifC19Stop", 1, 1, 0), int(tierPick(tier, 2, 3))))
			js = append(js, threadJob(mainJob("C19/main-shutdown-sequence[server.timeouts.shutdown 1..3600 s: in-flight requests get the whole budget, hard close only if draining failed]", "VerifC19Graceful"), 1))
			js = append(js, threadJob(lbJob("C19/Stop-with-active-checks-disabled[the pool is still shut down]", "VerifC19Stop", 5, 1, 0), 1))
			for i, n := range []string{"cleanup || Put", "Get || Get", "Put || Shutdown", "first Put of a new backend || Shutdown", "first Put || first Put of one new backend", "cleanup of the last stale connection || Shutdown", "cleanup of the last stale connection || Get and Stats", "Get discarding two stale connections || Put"} {
				js = append(js, threadJob(lbJob("C19/pool["+n+"; afterwards Shutdown has closed every connection the pool accepted]", "VerifC20Concurrent", int64(i)), int(tierPick(tier, 2, 3))))
			}
			js = append(js, threadJob(lbJob("C19/Stop-then-late-tick-then-Stop[N=2]", "VerifC19Stop", 2, 2, 0), 1))
			return js
		},
		Assumptions: append([]string{"claimed for the balancer side only: LoadBalancer.Stop, the real health-check goroutine (startHealthChecks -> startActiveHealthChecks: initial round, ticker loop, probe goroutines; the ticker fires at most `ticks` times, at any point of the schedule, and a select with several ready cases picks any of them), and the WebSocket pool's Shutdown; http.Server.Shutdown, request draining, signals and the shutdown-timeout bound are net/http / OS and not encodable", "the real performHealthCheck runs; (*http.Client).Do is replaced by a backend model that counts the probe, yields and then refuses the connection, answers 200, or never answers (holds the probe until the request's context is done or the client's timeout fires); natively the real client dials a local test server that behaves the same way", "contexts are models: cancellation propagates to derived contexts; a deadline expires when virtual time reaches it, and virtual time passes only when every thread is blocked (it jumps to the earliest pending deadline); shutdown timeout 1..2 s, probe timeout 1 ms..3 s (ranges kept small so that a counterexample replays natively in real time)"}, commonAssumptions...),
		Bounds:      map[string]string{"quick": "1-2 backends, 2 idle pooled connections, 2 top-level threads + probe goroutines, <= 1 ticker firing, <= 2 pre-emptions", "thorough": "<= 2 ticker firings (none with two backends); <= 3 pre-emptions for the tick-free races, Stop || Stop, the probe-in-flight and pool pairs, <= 2 where a ticker fires"},
		Outside:     []string{"http.Server.Shutdown / in-flight client requests / SIGTERM handling", "more than 1 (quick) / 2 (thorough) ticker firings during shutdown"},
	}
}
