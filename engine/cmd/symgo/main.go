package main

import (
	"encoding/json"
	"fmt"
	"os"
	"strconv"
	"time"

	"symgo/sym"
)

func main() {
	if len(os.Args) < 2 {
		fmt.Println("usage: symgo run <pkg.Func> [args...]")
		os.Exit(2)
	}
	switch os.Args[1] {
	case "run":
		t0 := time.Now()
		ov, _, err := sym.BuildOverlay("/repo", "/verif/harness")
		if err != nil {
			panic(err)
		}
		p, err := sym.Load("/repo", ov)
		if err != nil {
			fmt.Println(err)
			os.Exit(2)
		}
		fmt.Fprintf(os.Stderr, "loaded in %.1fs\n", time.Since(t0).Seconds())
		job := &sym.Job{ID: os.Args[2], Harness: os.Args[2]}
		for _, a := range os.Args[3:] {
			v, _ := strconv.ParseInt(a, 10, 64)
			job.Args = append(job.Args, v)
		}
		stats := sym.NewSolverStats()
		e, err := sym.NewEngine(p, job, stats, nil, 1)
		if err != nil {
			panic(err)
		}
		res := e.Run()
		res.Job = nil
		out, _ := json.MarshalIndent(res, "", " ")
		fmt.Println(string(out))
		out, _ = json.MarshalIndent(stats, "", " ")
		fmt.Println(string(out))
	}
}
