package main

import (
	"bufio"
	"encoding/json"
	"fmt"
	"os"
	"path/filepath"
	"sort"
	"strconv"
	"strings"
	"sync"
	"time"

	"symgo/sym"
)

const verifDir = "/verif"

// harnessDir is /verif/harness; VERIF_HARNESS points a run at a frozen copy
// (long thorough sweeps while the harnesses are being edited).
var harnessDir = envOr("VERIF_HARNESS", "/verif/harness")

// repoDir is /repo; VERIF_REPO redirects a run to a scratch worktree and
// VERIF_OUT its evidence / replay files (used only to evaluate seeded changes
// in parallel without touching /repo or /verif/evidence).
var (
	repoDir = envOr("VERIF_REPO", "/repo")
	outDir  = envOr("VERIF_OUT", verifDir)
)

func envOr(k, d string) string {
	if v := os.Getenv(k); v != "" {
		return v
	}
	return d
}

func main() {
	if len(os.Args) < 2 {
		usage()
	}
	switch os.Args[1] {
	case "run":
		cmdRun(os.Args[2:])
	case "check":
		os.Exit(cmdCheck(os.Args[2:]))
	case "replay":
		os.Exit(cmdReplay(os.Args[2:]))
	case "native":
		cmdNative(os.Args[2:])
	case "manifest":
		cmdManifest()
	case "list":
		for _, p := range allProps() {
			fmt.Println(p.ID, "-", p.Title)
		}
	default:
		usage()
	}
}

func usage() {
	fmt.Println("usage: symgo check <id> [--tier quick|thorough] | replay <file> | run <pkg.Func> [args] | list")
	os.Exit(2)
}

func loadProgram(patches ...sym.SourcePatch) (*sym.Program, error) {
	ov, _, err := sym.BuildOverlay(repoDir, harnessDir)
	if err != nil {
		return nil, err
	}
	if err := sym.ApplyPatches(repoDir, ov, patches); err != nil {
		return nil, err
	}
	p, err := sym.Load(repoDir, ov)
	// A harness file that reaches into unexported representation may stop compiling when the
	// repository is refactored. Drop exactly the harness files the errors name and try again:
	// their jobs are reported as inconclusive ("harness not found"), the others still run.
	for try := 0; err != nil && try < 3; try++ {
		dropped := false
		for path := range ov {
			base := filepath.Base(path)
			if strings.HasPrefix(base, "zz_verif_") && strings.Contains(err.Error(), path+":") {
				delete(ov, path)
				droppedHarness = append(droppedHarness, strings.TrimPrefix(base, "zz_verif_"))
				dropped = true
			}
		}
		if !dropped {
			break
		}
		p, err = sym.Load(repoDir, ov)
	}
	if err == nil {
		p.Patches = patches
	}
	return p, err
}

// droppedHarness: harness files left out because they no longer compile against the tree.
var droppedHarness []string

func cmdRun(args []string) {
	t0 := time.Now()
	var patches []sym.SourcePatch
	for _, a := range args {
		if strings.HasPrefix(a, "--prop=") {
			for _, pr := range allProps() {
				if pr.ID == strings.TrimPrefix(a, "--prop=") {
					patches = pr.Patches
				}
			}
		}
	}
	p, err := loadProgram(patches...)
	if err != nil {
		fmt.Println(err)
		os.Exit(2)
	}
	fmt.Fprintf(os.Stderr, "loaded in %.1fs\n", time.Since(t0).Seconds())
	job := &sym.Job{ID: args[0], Harness: args[0]}
	if !strings.Contains(job.Harness, "/") {
		job.Harness = resolveHarness(p, job.Harness)
	}
	for _, a := range args[1:] {
		switch {
		case a == "--threads":
			job.Threads = true
			job.Preempt = 2
		case strings.HasPrefix(a, "--primary="):
			job.Primary = strings.TrimPrefix(a, "--primary=")
		case strings.HasPrefix(a, "--prop="):
		case strings.HasPrefix(a, "--random="):
			job.RandomModels, _ = strconv.Atoi(strings.TrimPrefix(a, "--random="))
		case strings.HasPrefix(a, "--feas="):
			ms, _ := strconv.Atoi(strings.TrimPrefix(a, "--feas="))
			job.FeasTimeout = time.Duration(ms) * time.Millisecond
		case strings.HasPrefix(a, "--loop="):
			job.LoopBound, _ = strconv.Atoi(strings.TrimPrefix(a, "--loop="))
		default:
			v, _ := strconv.ParseInt(a, 10, 64)
			job.Args = append(job.Args, v)
		}
	}
	job.Stubs = proxyStubs
	stats := sym.NewSolverStats()
	known, _ := readKnown("")
	e, err := sym.NewEngine(p, job, stats, known, 1)
	if err != nil {
		panic(err)
	}
	res := e.Run()
	res.Job = nil
	res.Witness = nil
	res.PathSamples = nil
	out, _ := json.MarshalIndent(res, "", " ")
	fmt.Println(string(out))
	out, _ = json.MarshalIndent(stats, "", " ")
	fmt.Println(string(out))
}

func resolveHarness(p *sym.Program, name string) string {
	for path, sp := range p.ByPath {
		if strings.HasPrefix(path, sym.HeliosModule) && sp.Func(name) != nil {
			return path + "." + name
		}
	}
	return name
}

// ---------------------------------------------------------------- known findings

type knownEntry struct {
	Property string
	ID       string
	Label    string
	Desc     string
	Always   bool // event-only findings (no harness predicate): cover the labelled site unconditionally
}

func parseKnownFile() []knownEntry {
	f, err := os.Open(filepath.Join(verifDir, "known_findings.txt"))
	if err != nil {
		return nil
	}
	defer f.Close()
	var out []knownEntry
	sc := bufio.NewScanner(f)
	sc.Buffer(make([]byte, 1<<20), 1<<20)
	for sc.Scan() {
		line := strings.TrimSpace(sc.Text())
		if !strings.HasPrefix(line, "known:") {
			continue
		}
		line = strings.TrimSpace(strings.TrimPrefix(line, "known:"))
		desc := ""
		if i := strings.Index(line, "::"); i >= 0 {
			desc = strings.TrimSpace(line[i+2:])
			line = strings.TrimSpace(line[:i])
		}
		e := knownEntry{Desc: desc}
		// fields: property=.. id=.. label="..."
		for len(line) > 0 {
			line = strings.TrimSpace(line)
			eq := strings.Index(line, "=")
			if eq < 0 {
				break
			}
			key := line[:eq]
			rest := line[eq+1:]
			var val string
			if strings.HasPrefix(rest, "\"") {
				end := strings.Index(rest[1:], "\"")
				if end < 0 {
					break
				}
				val = rest[1 : 1+end]
				line = rest[end+2:]
			} else {
				sp := strings.IndexAny(rest, " \t")
				if sp < 0 {
					val = rest
					line = ""
				} else {
					val = rest[:sp]
					line = rest[sp:]
				}
			}
			switch key {
			case "property":
				e.Property = val
			case "id":
				e.ID = val
			case "label":
				e.Label = val
			case "always":
				e.Always = val == "true"
			}
		}
		if e.ID != "" && e.Property != "" && e.Label != "" {
			out = append(out, e)
		}
	}
	return out
}

// readKnown returns finding id -> labels for one property ("" = all).
func readKnown(prop string) (map[string]map[string]bool, map[string]knownEntry) {
	m := map[string]map[string]bool{}
	byID := map[string]knownEntry{}
	for _, e := range parseKnownFile() {
		if prop != "" && e.Property != prop {
			continue
		}
		if m[e.ID] == nil {
			m[e.ID] = map[string]bool{}
		}
		m[e.ID][e.Label] = true
		if e.Always {
			m[e.ID]["\x00always"] = true
		}
		if _, ok := byID[e.ID]; !ok {
			byID[e.ID] = e
		}
	}
	return m, byID
}

// ---------------------------------------------------------------- check

type evidence struct {
	PropertyID  string                 `json:"property_id"`
	Tier        string                 `json:"tier"`
	Seed        int64                  `json:"seed"`
	Level       string                 `json:"level"`
	Coverage    map[string]interface{} `json:"coverage"`
	Assumptions []string               `json:"assumptions"`
	WallS       float64                `json:"wall_s"`
	Violations  int                    `json:"violations"`
}

func cmdCheck(args []string) int {
	t0 := time.Now()
	if len(args) < 1 {
		usage()
	}
	id := args[0]
	tier := os.Getenv("VERIF_TIER")
	if tier == "" {
		tier = "quick"
	}
	for i := 1; i < len(args); i++ {
		if args[i] == "--tier" && i+1 < len(args) {
			tier = args[i+1]
			i++
		}
	}
	if tier != "quick" && tier != "thorough" {
		tier = "quick"
	}
	seed := int64(1)
	if s := os.Getenv("VERIF_SEED"); s != "" {
		if v, err := strconv.ParseInt(s, 10, 64); err == nil {
			seed = v
		}
	}
	var prop *Prop
	for _, p := range allProps() {
		if p.ID == id {
			prop = p
		}
	}
	if prop == nil {
		fmt.Println("unknown property", id)
		return 2
	}
	evPath := filepath.Join(outDir, "evidence", id+".json")
	os.MkdirAll(filepath.Dir(evPath), 0o755)
	os.Remove(evPath)

	ev := &evidence{PropertyID: id, Tier: tier, Seed: seed, Level: "model_checking", Coverage: map[string]interface{}{}}
	ev.Assumptions = append(ev.Assumptions, prop.Assumptions...)
	inconclusive := []string{}
	finish := func(code int) int {
		ev.WallS = time.Since(t0).Seconds()
		if len(inconclusive) > 0 {
			ev.Coverage["inconclusive"] = inconclusive
		}
		data, _ := json.MarshalIndent(ev, "", " ")
		os.WriteFile(evPath, data, 0o644)
		return code
	}

	prog, err := loadProgram(prop.Patches...)
	for _, sp := range prop.Patches {
		ev.Assumptions = append(ev.Assumptions, "source scaled by overlay: "+sp.File+": `"+sp.Old+"` -> `"+sp.New+"` ("+sp.Why+")")
	}
	if err != nil {
		fmt.Println("INCONCLUSIVE: cannot load /repo with harness overlay:", err)
		inconclusive = append(inconclusive, "load: "+err.Error())
		ev.Coverage["states"] = 0
		return finish(2)
	}
	loadS := time.Since(t0).Seconds()
	for _, f := range droppedHarness {
		inconclusive = append(inconclusive, "harness file "+f+" no longer compiles against the tree and was left out (its jobs are not run)")
	}
	known, knownByID := readKnown(id)

	jobs := prop.Jobs(tier)
	for _, j := range jobs {
		if j.Budget == 0 {
			if tier == "thorough" {
				j.Budget = 90 * time.Minute
			} else {
				// generous on purpose: on a quiet machine no quick job takes more than two minutes; the
				// budget only decides when a loaded machine turns a verdict into "inconclusive"
				j.Budget = 12 * time.Minute
			}
		}
		if j.CrossCheckEvery == 0 {
			if tier == "thorough" {
				j.CrossCheckEvery = 1
			} else {
				j.CrossCheckEvery = 5
			}
		}
	}
	stats := sym.NewSolverStats()
	results := make([]*sym.JobResult, len(jobs))
	workers := 16
	if len(jobs) < workers {
		workers = len(jobs)
	}
	var wg sync.WaitGroup
	ch := make(chan int)
	for w := 0; w < workers; w++ {
		wg.Add(1)
		go func() {
			defer wg.Done()
			for i := range ch {
				e, err := sym.NewEngine(prog, jobs[i], stats, known, seed+int64(i))
				if err != nil {
					results[i] = &sym.JobResult{Job: jobs[i], Inconclusive: []string{"engine: " + err.Error()}}
					continue
				}
				results[i] = e.Run()
				if os.Getenv("VERIF_PROGRESS") != "" {
					fmt.Fprintf(os.Stderr, "[%6.0fs] job done: %s paths=%d wall=%.0fs inconclusive=%d\n", time.Since(t0).Seconds(), jobs[i].ID, results[i].Paths, results[i].Wall, len(results[i].Inconclusive))
				}
			}
		}()
	}
	for i := range jobs {
		ch <- i
	}
	close(ch)
	wg.Wait()

	// ---- aggregate
	var (
		paths, infeasible, instrs, blocks, decisions int
		funcs                                        = map[string]bool{}
		intr                                         = map[string]int{}
		samples                                      []interface{}
		jobRows                                      []map[string]interface{}
		newViol                                      []*sym.Violation
		knownHits                                    = map[string]*sym.Violation{}
		negOK, negTotal                              int
		asserts                                      = map[string]map[string]int{}
		crossChecked, disagreements                  int
		pathSamples                                  []*sym.PathSample
		feasUnknown                                  int
	)
	for _, r := range results {
		j := r.Job
		paths += r.Paths
		infeasible += r.Infeasible
		instrs += r.Instrs
		blocks += r.Blocks
		decisions += r.Decisions
		crossChecked += r.CrossChecked
		disagreements += r.Disagreements
		feasUnknown += r.FeasUnknown
		for f := range r.Funcs {
			funcs[f] = true
		}
		for k, v := range r.Intrinsics {
			intr[k] += v
		}
		row := map[string]interface{}{"job": j.ID, "harness": j.Harness, "args": j.Args, "paths": r.Paths, "pruned_or_infeasible": r.Infeasible,
			"ssa_instrs": r.Instrs, "wall_s": round2(r.Wall), "loop_bound": j.LoopBound, "unwinding": "assertions passed"}
		if j.Threads {
			row["threads"] = true
			row["preemption_bound"] = j.Preempt
		}
		if j.Note != "" {
			row["note"] = j.Note
		}
		if len(r.Unwind) > 0 {
			row["unwinding"] = r.Unwind
			for k := range r.Unwind {
				inconclusive = append(inconclusive, j.ID+": unwinding bound hit: "+k)
			}
		}
		for k, n := range r.Unsupported {
			inconclusive = append(inconclusive, fmt.Sprintf("%s: unsupported construct (%d paths): %s", j.ID, n, k))
		}
		for _, s := range r.Inconclusive {
			if j.ExpectViolation && strings.HasPrefix(s, "vacuous") {
				continue
			}
			inconclusive = append(inconclusive, j.ID+": "+s)
		}
		if j.ExpectViolation {
			negTotal++
			if len(r.Violations) > 0 {
				negOK++
				row["negative_twin"] = "violated as required"
			} else {
				row["negative_twin"] = "NOT violated"
				inconclusive = append(inconclusive, j.ID+": negative twin did not produce a violation (vacuous harness?)")
			}
		} else {
			newViol = append(newViol, r.Violations...)
			for k, v := range r.KnownHits {
				if _, ok := knownHits[k]; !ok {
					knownHits[k] = v
				}
			}
			for l, a := range r.Asserts {
				m := asserts[l]
				if m == nil {
					m = map[string]int{}
					asserts[l] = m
				}
				m["reached"] += a.Reached
				m["unsat"] += a.Unsat
				m["trivially_true"] += a.Trivial
				m["sat_new"] += a.Sat
				m["sat_known"] += a.KnownSat
				m["unknown"] += a.Unknown
			}
			pathSamples = append(pathSamples, r.PathSamples...)
		}
		for _, s := range r.Samples {
			if len(samples) < 12 {
				samples = append(samples, s)
			}
		}
		jobRows = append(jobRows, row)
	}

	// ---- vacuity: every assertion label present in the harness code of this
	// property's (non-twin) jobs must have been reached on a feasible path by some job
	{
		expected := map[string]bool{}
		truncated := false
		for _, r := range results {
			if r.Job.ExpectViolation {
				continue
			}
			if r.Truncated {
				truncated = true
			}
			for _, l := range r.Expected {
				expected[l] = true
			}
		}
		if !truncated {
			var miss []string
			for l := range expected {
				if a := asserts[l]; a == nil || a["reached"] == 0 {
					miss = append(miss, l)
				}
			}
			sort.Strings(miss)
			for _, l := range miss {
				inconclusive = append(inconclusive, "vacuous: assertion never reached by any job: "+l)
			}
		}
	}

	// ---- native side: translator validation of sampled paths, replay of counterexamples
	runner, err := sym.NewNativeRunner(prog, harnessDir)
	validated, valMismatch := 0, 0
	var replayNotes []string
	confirmed := []*sym.Violation{}
	if err != nil {
		inconclusive = append(inconclusive, "native runner: "+err.Error())
	} else {
		defer runner.Close()
		// validation, one batch per package
		byPkg := map[string][]*sym.PathSample{}
		for _, ps := range pathSamples {
			pkg := ps.Harness[:strings.LastIndex(ps.Harness, ".")]
			byPkg[pkg] = append(byPkg[pkg], ps)
		}
		pkgs := make([]string, 0, len(byPkg))
		for k := range byPkg {
			pkgs = append(pkgs, k)
		}
		sort.Strings(pkgs)
		for _, pkg := range pkgs {
			var cases []sym.NativeCase
			for _, ps := range byPkg[pkg] {
				cases = append(cases, sym.NativeCase{Harness: ps.Harness, Args: ps.Args, Values: sym.ValuesOf(ps.Inputs)})
			}
			outs, err := runner.Run(pkg, cases, false, 600*time.Second)
			if err != nil {
				inconclusive = append(inconclusive, "translator validation could not run natively: "+firstLine(err.Error()))
				replayNotes = append(replayNotes, err.Error())
				continue
			}
			for i, o := range outs {
				ps := byPkg[pkg][i]
				if o.Outcome == "pass" && equalTrace(o.Trace, ps.Trace) {
					validated++
				} else {
					valMismatch++
					msg := fmt.Sprintf("translator validation mismatch in %s: native outcome %q trace %v; symbolic path passed with trace %v; inputs %s",
						ps.Job, o.Outcome, o.Trace, ps.Trace, showInputs(ps.Inputs))
					inconclusive = append(inconclusive, msg)
				}
			}
		}
		// replay new violations (distinct labels per job first; cap)
		sort.SliceStable(newViol, func(i, j int) bool { return newViol[i].Label < newViol[j].Label })
		seen := map[string]int{}
		replayed := 0
		for _, v := range newViol {
			key := v.Job + "|" + v.Label
			seen[key]++
			if seen[key] > 1 || replayed >= 6 {
				continue
			}
			replayed++
			ok, note := replayViolation(runner, prog, v)
			replayNotes = append(replayNotes, note)
			if ok {
				confirmed = append(confirmed, v)
			} else {
				inconclusive = append(inconclusive, "counterexample not reproduced natively ("+v.Job+" / "+v.Label+"): "+note)
			}
		}
		if tier == "thorough" {
			ids := make([]string, 0, len(knownHits))
			for k := range knownHits {
				ids = append(ids, k)
			}
			sort.Strings(ids)
			for _, k := range ids {
				ok, note := replayViolation(runner, prog, knownHits[k])
				replayNotes = append(replayNotes, "known "+k+": "+note)
				if ok {
					validated++
				} else {
					inconclusive = append(inconclusive, "known finding "+k+" did not reproduce natively: "+note)
				}
			}
		}
		for _, l := range runner.Log {
			if len(replayNotes) < 20 {
				replayNotes = append(replayNotes, firstLine(l))
			}
		}
	}

	// ---- report
	code := 0
	ids := make([]string, 0, len(knownHits))
	for k := range knownHits {
		ids = append(ids, k)
	}
	sort.Strings(ids)
	var knownRows []interface{}
	for _, k := range ids {
		v := knownHits[k]
		fmt.Printf("KNOWN-FINDING: property=%s %s [%s] witness: %s / %q with %s\n", id, knownByID[k].Desc, k, v.Job, v.Label, showInputs(v.Inputs))
		knownRows = append(knownRows, map[string]interface{}{"id": k, "job": v.Job, "label": v.Label, "inputs": showInputs(v.Inputs), "what": knownByID[k].Desc})
	}
	var violRows []interface{}
	for _, v := range confirmed {
		path := writeReplay(id, v)
		fmt.Printf("VIOLATION property=%s replay=%s\n", id, path)
		fmt.Printf("  %s: %s %q %s with %s\n", v.Job, v.Kind, v.Label, v.Detail, showInputs(v.Inputs))
		violRows = append(violRows, map[string]interface{}{"job": v.Job, "label": v.Label, "kind": v.Kind, "inputs": showInputs(v.Inputs), "replay": path, "detail": v.Detail})
		code = 1
	}
	if code == 0 && len(inconclusive) > 0 {
		code = 2
		for _, s := range inconclusive {
			fmt.Println("INCONCLUSIVE:", firstLine(s))
		}
	}
	// queries
	q := map[string]int{}
	for k, v := range stats.Queries {
		q[k] = v
	}
	secs := map[string]float64{}
	for k, v := range stats.Seconds {
		secs[k] = round2(v)
	}
	fl := make([]string, 0, len(funcs))
	for f := range funcs {
		if strings.Contains(f, sym.HeliosModule) && !strings.Contains(f, "verifrt") {
			fl = append(fl, strings.ReplaceAll(f, sym.HeliosModule+"/", ""))
		}
	}
	sort.Strings(fl)
	stubs := []string{}
	for k, n := range intr {
		if !strings.Contains(k, "verifrt") {
			stubs = append(stubs, fmt.Sprintf("%s x%d", k, n))
		}
	}
	sort.Strings(stubs)
	if len(samples) == 0 {
		samples = append(samples, "no assertion was reached")
	}
	ev.Coverage["states"] = paths
	ev.Coverage["transitions"] = instrs
	ev.Coverage["traces_validated_against_impl"] = validated
	ev.Coverage["samples"] = samples
	ev.Coverage["explanation"] = "states = complete feasible symbolic paths explored (each stands for every input satisfying its path condition); transitions = SSA instructions executed symbolically; traces_validated = solver models of completed paths re-executed natively (go test, real build, virtual clock overlay) with identical outcome and observation trace"
	ev.Coverage["paths_infeasible_or_exhausted"] = infeasible
	ev.Coverage["ssa_blocks"] = blocks
	ev.Coverage["fork_decisions"] = decisions
	ev.Coverage["functions_encoded"] = fl
	ev.Coverage["bounds"] = prop.Bounds[tier]
	ev.Coverage["outside_bounds"] = prop.Outside
	ev.Coverage["queries"] = q
	ev.Coverage["solver_seconds"] = secs
	ev.Coverage["solver_errors"] = stats.Errors
	ev.Coverage["feasibility_unknown_kept"] = feasUnknown
	ev.Coverage["cross_checked_queries"] = crossChecked
	ev.Coverage["solver_disagreements"] = disagreements
	ev.Coverage["stubs_and_intrinsics_hit"] = stubs
	ev.Coverage["assertions"] = asserts
	ev.Coverage["jobs"] = jobRows
	ev.Coverage["negative_twins"] = fmt.Sprintf("%d/%d violated as required", negOK, negTotal)
	ev.Coverage["validation_mismatches"] = valMismatch
	ev.Coverage["known_findings_hit"] = knownRows
	ev.Coverage["violations"] = violRows
	ev.Coverage["replay_notes"] = replayNotes
	ev.Coverage["load_s"] = round2(loadS)
	ev.Coverage["exhaustive"] = false
	ev.Violations = len(confirmed)
	if code == 0 {
		fmt.Printf("OK property=%s tier=%s paths=%d queries=%d validated=%d known=%d wall=%.1fs\n", id, tier, paths, totalQ(q), validated, len(knownHits), time.Since(t0).Seconds())
	}
	return finish(code)
}

func totalQ(q map[string]int) int {
	n := 0
	for _, v := range q {
		n += v
	}
	return n
}

func round2(f float64) float64 { return float64(int(f*100+0.5)) / 100 }

func firstLine(s string) string {
	if i := strings.Index(s, "\n"); i >= 0 {
		s = s[:i]
	}
	if len(s) > 400 {
		s = s[:400] + "…"
	}
	return s
}

func equalTrace(a, b []string) bool {
	if len(a) != len(b) {
		return false
	}
	for i := range a {
		if a[i] != b[i] {
			return false
		}
	}
	return true
}

func showInputs(in []sym.Input) string {
	var parts []string
	for _, i := range in {
		if i.W == 1 && i.Kind == "bool" {
			parts = append(parts, fmt.Sprintf("%s=%v", i.Name, i.Val != 0))
		} else if i.W == 64 {
			parts = append(parts, fmt.Sprintf("%s=%d", i.Name, int64(i.Val)))
		} else {
			parts = append(parts, fmt.Sprintf("%s=%d", i.Name, i.Val))
		}
		if len(parts) > 40 {
			parts = append(parts, "…")
			break
		}
	}
	return strings.Join(parts, " ")
}

// replayViolation runs the counterexample natively; it reproduces when the
// same assertion fails (or the same kind of event happens).
func replayViolation(runner *sym.NativeRunner, prog *sym.Program, v *sym.Violation) (bool, string) {
	pkg := v.Harness[:strings.LastIndex(v.Harness, ".")]
	race := v.Kind == "race"
	to := 180 * time.Second
	if v.Kind == "deadlock" {
		to = 20 * time.Second // the native run is expected to hang: go test's own deadline is the oracle
	}
	sched := 0
	if v.Threads && (v.Kind == "assert" || v.Kind == "panic") {
		// schedule-dependent assertion: search seeded schedules under the cooperative native scheduler
		sched = 2000
	}
	if v.Threads && v.Kind == "deadlock" {
		// schedule-dependent deadlock: the cooperative scheduler reports a thread that spins forever on a mutex
		sched = 300
		to = 120 * time.Second
	}
	outs, err := runner.RunSched(pkg, []sym.NativeCase{{Harness: v.Harness, Args: v.Args, Values: sym.ValuesOf(v.Inputs)}}, race, to, sched)
	if err != nil {
		return false, "native run failed: " + firstLine(err.Error())
	}
	o := outs[0]
	note := fmt.Sprintf("%s %q -> native outcome %q", v.Job, v.Label, o.Outcome)
	switch v.Kind {
	case "assert":
		if o.Outcome == "assert:"+v.Label {
			return true, note
		}
		// the real code failed an EARLIER assertion of the same harness on these inputs (natively the
		// first failing Assert ends the run): every harness assertion states the property, so the
		// counterexample is confirmed - it is reported under the label that failed natively
		if strings.HasPrefix(o.Outcome, "assert:") && !strings.Contains(o.Outcome, "NEGATIVE TWIN") && !strings.HasSuffix(o.Outcome, "…") {
			v.Detail = strings.TrimSpace(v.Detail + " (native run failed the earlier assertion " + strconv.Quote(strings.TrimPrefix(o.Outcome, "assert:")) + " on the same inputs)")
			return true, note
		}
		return false, note
	case "panic":
		return strings.HasPrefix(o.Outcome, "panic:"), note
	case "deadlock":
		return o.Outcome == "timeout" || strings.Contains(o.Outcome, "spun on a mutex nobody releases"), note
	case "race":
		return o.Outcome == "race", note
	case "waitgroup":
		return o.Outcome == "race" || strings.HasPrefix(o.Outcome, "panic:"), note
	}
	return false, note
}

func writeReplay(id string, v *sym.Violation) string {
	dir := filepath.Join(outDir, "replays", id)
	os.MkdirAll(dir, 0o755)
	name := fmt.Sprintf("%s-%d.json", sanitize(v.Job+"-"+v.Label), time.Now().UnixNano()%1000000)
	path := filepath.Join(dir, name)
	data, _ := json.MarshalIndent(v, "", " ")
	os.WriteFile(path, data, 0o644)
	return path
}

func sanitize(s string) string {
	var b strings.Builder
	for _, c := range s {
		switch {
		case c >= 'a' && c <= 'z', c >= 'A' && c <= 'Z', c >= '0' && c <= '9', c == '-', c == '_':
			b.WriteRune(c)
		default:
			b.WriteRune('_')
		}
	}
	s = b.String()
	if len(s) > 80 {
		s = s[:80]
	}
	return s
}

func cmdReplay(args []string) int {
	if len(args) < 1 {
		usage()
	}
	data, err := os.ReadFile(args[0])
	if err != nil {
		fmt.Println(err)
		return 2
	}
	var v sym.Violation
	if err := json.Unmarshal(data, &v); err != nil {
		fmt.Println(err)
		return 2
	}
	prog, err := loadProgram()
	if err != nil {
		fmt.Println(err)
		return 2
	}
	runner, err := sym.NewNativeRunner(prog, harnessDir)
	if err != nil {
		fmt.Println(err)
		return 2
	}
	defer runner.Close()
	ok, note := replayViolation(runner, prog, &v)
	fmt.Println(note)
	for _, l := range runner.Log {
		fmt.Println(l)
	}
	if ok {
		fmt.Println("REPRODUCED")
		return 1
	}
	fmt.Println("not reproduced")
	return 0
}

func cmdManifest() {
	type lvl struct {
		Category  string `json:"category"`
		Text      string `json:"text"`
		DesignRef string `json:"design_ref,omitempty"`
	}
	type chk struct {
		PropertyID string `json:"property_id"`
		Quick      string `json:"quick_cmd"`
		Thorough   string `json:"thorough_cmd"`
		Evidence   string `json:"evidence_file"`
		Replay     string `json:"replay_cmd_template"`
		Engine     string `json:"engine"`
		Level      lvl    `json:"level_claimed"`
		Note       string `json:"level_note"`
		Technique  string `json:"technique"`
	}
	type na struct {
		PropertyID string `json:"property_id"`
		Reason     string `json:"reason"`
	}
	var checks []chk
	var served []string
	for _, p := range allProps() {
		served = append(served, p.ID)
		if p.LevelText == "" {
			p.LevelText = "Bounded symbolic model checking of the real implementation (go/ssa executed symbolically, SMT verdicts). Quick tier: " + p.Bounds["quick"] + ". Thorough tier: " + p.Bounds["thorough"] + ". Inside these bounds every verdict query is unsat for every symbolic value (or is a listed known finding with its own predicate); inductive one-step harnesses extend to histories of any length where stated; nothing is claimed outside the bounds."
		}
		if p.LevelNote == "" {
			n := "Trusted base: go/ssa construction, the engine's SSA semantics (validated per run by native re-execution of sampled path models with identical observation traces, and by negative twins), z3/cvc5 (cross-checked, models re-evaluated). Assumptions: " + strings.Join(p.Assumptions, "; ")
			if len(p.Outside) > 0 {
				n += ". Outside the claim: " + strings.Join(p.Outside, "; ")
			}
			p.LevelNote = n
		}
		if p.DesignRef == "" {
			p.DesignRef = "DESIGN.md A4 (" + p.ID + "), A5, A8"
		}
		checks = append(checks, chk{
			PropertyID: p.ID,
			Quick:      "/verif/bin/symgo check " + p.ID + " --tier quick",
			Thorough:   "/verif/bin/symgo check " + p.ID + " --tier thorough",
			Evidence:   "/verif/evidence/" + p.ID + ".json",
			Replay:     "/verif/bin/symgo replay {path}",
			Engine:     "symgo",
			Level:      lvl{"model_checking", p.LevelText, p.DesignRef},
			Note:       p.LevelNote,
			Technique:  "bounded symbolic execution of the real go/ssa code into SMT-LIB2 (QF_BV), verdict by z3/cvc5; counterexamples replayed natively",
		})
	}
	nas := []na{}
	have := map[string]bool{}
	for _, id := range served {
		have[id] = true
	}
	for i := 1; i <= 20; i++ {
		id := fmt.Sprintf("C%02d", i)
		if _, ok := notApplicable[id]; !ok && !have[id] {
			notApplicable[id] = "check not built yet (work in progress in this session; see DESIGN.md section 6 for the plan)"
		}
	}
	ids := make([]string, 0, len(notApplicable))
	for k := range notApplicable {
		ids = append(ids, k)
	}
	sort.Strings(ids)
	for _, k := range ids {
		nas = append(nas, na{k, notApplicable[k]})
	}
	m := map[string]interface{}{
		"version":   1,
		"setup_cmd": "cd /verif/engine && GOFLAGS=-mod=mod GOPROXY=off GOSUMDB=off GOTOOLCHAIN=local go build -o /verif/bin/symgo ./cmd/symgo",
		"hooks": map[string]interface{}{
			"guard":            "verif",
			"enable":           "none needed: harnesses are injected with go/packages overlays and go test -overlay; no hook commits exist in /repo",
			"baseline_off_cmd": "cd /repo && GOFLAGS=-mod=mod GOPROXY=off go test -json -vet=off -count=1 -timeout 25m ./...",
			"source_commits":   []string{},
			"add_only":         true,
		},
		"engines": []map[string]interface{}{{
			"name": "symgo", "path": "/verif/engine", "serves_properties": served,
			"kind_free_text": "forking symbolic executor over go/ssa (x/tools v0.29.0) emitting SMT-LIB2 bit-vector queries to z3 4.8.12 / z3 5.1 / cvc5 1.0.3; harnesses overlaid into /repo's packages; native replay through go test -overlay",
		}},
		"checks":         checks,
		"not_applicable": nas,
		"notes":          "Every check reloads /repo's working tree, rebuilds SSA and regenerates all queries. Exit 0 = all verdict queries unsat within the stated bounds (known findings printed as KNOWN-FINDING lines); exit 1 = replay-confirmed counterexample (VIOLATION line); exit 2 = inconclusive (solver unknown, unwinding bound hit, unsupported construct, harness does not compile against the tree, counterexample not reproduced).",
	}
	data, _ := json.MarshalIndent(m, "", " ")
	fmt.Println(string(data))
}

// cmdNative runs a harness natively with the given input values and prints go test's output (debugging aid).
func cmdNative(args []string) {
	prog, err := loadProgram()
	if err != nil {
		fmt.Println(err)
		return
	}
	h := resolveHarness(prog, args[0])
	var hargs []int64
	var vals []string
	seenSep := false
	for _, a := range args[1:] {
		if a == "--" {
			seenSep = true
			continue
		}
		if seenSep {
			vals = append(vals, a)
		} else {
			v, _ := strconv.ParseInt(a, 10, 64)
			hargs = append(hargs, v)
		}
	}
	runner, _ := sym.NewNativeRunner(prog, harnessDir)
	defer runner.Close()
	runner.Verbose = true
	outs, err := runner.Run(h[:strings.LastIndex(h, ".")], []sym.NativeCase{{Harness: h, Args: hargs, Values: vals}}, os.Getenv("VERIF_NATIVE_RACE") != "", 60*time.Second)
	fmt.Println(outs, err)
}
