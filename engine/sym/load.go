package sym

import (
	"context"
	"fmt"
	"go/constant"
	"os"
	"path/filepath"
	"sort"
	"strings"

	"golang.org/x/tools/go/packages"
	"golang.org/x/tools/go/ssa"
	"golang.org/x/tools/go/ssa/ssautil"
)

// Program is the SSA form of /repo's current working tree with the harness
// files overlaid into its package directories. It is rebuilt on every run.
type Program struct {
	Prog    *ssa.Program
	Pkgs    []*packages.Package
	ByPath  map[string]*ssa.Package
	Module  string
	RepoDir string
	Overlay map[string][]byte
	Patches []SourcePatch
}

const HeliosModule = "github.com/0xReLogic/Helios"

// BuildOverlay maps every file under harnessDir/<rel>/x.go to
// repoDir/<rel>/zz_verif_x.go (verifrt keeps its own directory).
func BuildOverlay(repoDir, harnessDir string) (map[string][]byte, map[string]string, error) {
	ov := map[string][]byte{}
	real := map[string]string{}
	err := filepath.Walk(harnessDir, func(p string, info os.FileInfo, err error) error {
		if err != nil || info.IsDir() || !strings.HasSuffix(p, ".go") {
			return err
		}
		rel, _ := filepath.Rel(harnessDir, p)
		dir := filepath.Dir(rel)
		base := filepath.Base(rel)
		if strings.HasSuffix(base, "_native.go") {
			return nil // native-only replay support
		}
		data, err := os.ReadFile(p)
		if err != nil {
			return err
		}
		target := filepath.Join(repoDir, dir, "zz_verif_"+base)
		ov[target] = data
		real[target] = p
		return nil
	})
	return ov, real, err
}

// SourcePatch is a declared, textual scaling of a constant in the repository's
// source (applied identically to the SSA load and to the native replay).
type SourcePatch struct {
	File string // relative to the repository root
	Old  string
	New  string
	Why  string
}

// ApplyPatches adds patched copies of repository files to the overlay.
func ApplyPatches(repoDir string, overlay map[string][]byte, patches []SourcePatch) error {
	for _, p := range patches {
		path := filepath.Join(repoDir, p.File)
		data, ok := overlay[path]
		if !ok {
			d, err := os.ReadFile(path)
			if err != nil {
				return err
			}
			data = d
		}
		if !strings.Contains(string(data), p.Old) {
			return fmt.Errorf("source patch anchor not found in %s: %q", p.File, p.Old)
		}
		overlay[path] = []byte(strings.Replace(string(data), p.Old, p.New, 1))
	}
	return nil
}

func Load(repoDir string, overlay map[string][]byte) (*Program, error) {
	cfg := &packages.Config{
		Mode:    packages.LoadAllSyntax,
		Dir:     repoDir,
		Overlay: overlay,
		Env:     append(os.Environ(), "GOFLAGS=-mod=mod", "GOPROXY=off", "GOSUMDB=off", "GOTOOLCHAIN=local"),
		Tests:   false,
	}
	pkgs, err := packages.Load(cfg, "./...")
	if err != nil {
		return nil, err
	}
	var errs []string
	packages.Visit(pkgs, nil, func(p *packages.Package) {
		for _, e := range p.Errors {
			errs = append(errs, e.Error())
		}
	})
	if len(errs) > 0 {
		if len(errs) > 12 {
			errs = errs[:12]
		}
		return nil, fmt.Errorf("load errors (harness no longer compiles against the tree?):\n%s", strings.Join(errs, "\n"))
	}
	prog, _ := ssautil.AllPackages(pkgs, ssa.InstantiateGenerics)
	prog.Build()
	p := &Program{Prog: prog, Pkgs: pkgs, ByPath: map[string]*ssa.Package{}, Module: HeliosModule, RepoDir: repoDir, Overlay: overlay}
	for _, sp := range prog.AllPackages() {
		p.ByPath[sp.Pkg.Path()] = sp
	}
	return p, nil
}

func (p *Program) isHelios(path string) bool {
	return path == p.Module || strings.HasPrefix(path, p.Module+"/")
}

// Func resolves "pkgpath.Name".
func (p *Program) Func(name string) *ssa.Function {
	i := strings.LastIndex(name, ".")
	if i < 0 {
		return nil
	}
	pkg := p.ByPath[name[:i]]
	if pkg == nil {
		return nil
	}
	return pkg.Func(name[i+1:])
}

func isHarnessFile(prog *ssa.Program, fn *ssa.Function) bool {
	if fn == nil || fn.Pos() == 0 {
		if fn != nil && fn.Parent() != nil {
			return isHarnessFile(prog, fn.Parent())
		}
		return false
	}
	f := prog.Fset.Position(fn.Pos()).Filename
	return strings.HasPrefix(filepath.Base(f), "zz_verif_")
}

// assertLabels statically collects the constant labels of verifrt.Assert
// calls reachable from fn through harness code.
func (p *Program) assertLabels(fn *ssa.Function) []string {
	seen := map[*ssa.Function]bool{}
	labels := map[string]bool{}
	var visit func(f *ssa.Function)
	visit = func(f *ssa.Function) {
		if f == nil || seen[f] {
			return
		}
		seen[f] = true
		for _, b := range f.Blocks {
			for _, in := range b.Instrs {
				if mc, ok := in.(*ssa.MakeClosure); ok {
					if cf, ok := mc.Fn.(*ssa.Function); ok {
						visit(cf)
					}
				}
				c, ok := in.(ssa.CallInstruction)
				if !ok {
					continue
				}
				callee := c.Common().StaticCallee()
				if callee == nil {
					continue
				}
				if callee.Pkg != nil && strings.HasSuffix(callee.Pkg.Pkg.Path(), "/internal/verifrt") && callee.Name() == "Assert" {
					if k, ok := c.Common().Args[1].(*ssa.Const); ok && k.Value != nil {
						labels[constant.StringVal(k.Value)] = true
					}
					continue
				}
				if isHarnessFile(p.Prog, callee) {
					visit(callee)
				}
			}
		}
	}
	visit(fn)
	var out []string
	for l := range labels {
		out = append(out, l)
	}
	sort.Strings(out)
	return out
}

func contextBackground() context.Context { return context.Background() }
