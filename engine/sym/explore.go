package sym

import (
	"fmt"
	"math/rand"
	"os"
	"sort"
	"strconv"
	"strings"
	"time"

	"golang.org/x/tools/go/ssa"
)

// Job is one harness run (one function with concrete parameters).
type Job struct {
	ID        string  // e.g. "C09/window[k=4]"
	Harness   string  // "pkgpath.Func"
	Args      []int64 // concrete int parameters of the harness
	LoopBound int     // unwinding bound U for every loop (per frame, per block)
	Primary   string  // primary incremental backend
	MaxPaths  int
	ExpectViolation bool // negative twin: must come back violated
	FeasTimeout    time.Duration
	VerdictTimeout time.Duration
	CrossCheckEvery int // every n-th verdict query is cross-checked on a second backend (0 = never, 1 = all)
	Concrete  map[string][]uint64 // concrete mode: input name -> successive values (translator validation)
	ConcreteSeq []uint64           // concrete mode: values by creation order (overrides Concrete)
	Threads   bool
	Preempt   int
	NoLemmas  bool
	StopAtFirst bool
	ValidatePaths int // number of completed paths to hand to native validation
	Note string
	Budget time.Duration // wall-clock budget of the job; exceeding it makes the run inconclusive (never a pass)
	Stubs map[string]string // callee (as printed by go/ssa) -> "pkgpath.Func" of the harness stub that replaces it
	RandomModels int // random assignments tried before a feasibility query goes to the solver (sat side only)
	Cross string // back end used for cross-checking (default z3 4.8.12 for z3-new primaries)
	CrossTimeout time.Duration
}

type Input struct {
	Name string `json:"name"`
	Kind string `json:"kind"` // int, bool, choice, bytes
	W    int    `json:"w"`
	term *Term
	Val  uint64 `json:"v"`
}

type Violation struct {
	Job     string            `json:"job"`
	Harness string            `json:"harness"`
	Args    []int64           `json:"args"`
	Label   string            `json:"label"`
	Kind    string            `json:"kind"` // assert, panic, deadlock, race, waitgroup
	Inputs  []Input           `json:"inputs"`
	Detail  string            `json:"detail"`
	Backend string            `json:"backend"`
	Known   string            `json:"known,omitempty"`
	Observes []string         `json:"observes,omitempty"`
	Threads bool              `json:"threads,omitempty"`
}

type AssertStat struct {
	Reached  int
	Trivial  int
	Unsat    int
	Sat      int
	KnownSat int
	Unknown  int
}

type JobResult struct {
	Job            *Job
	Paths          int
	Infeasible     int
	Instrs         int
	Blocks         int
	Decisions      int
	Asserts        map[string]*AssertStat
	Expected       []string // assert labels found statically in the harness
	Violations     []*Violation
	KnownHits      map[string]*Violation
	Unsupported    map[string]int
	Unwind         map[string]int
	Inconclusive   []string
	Funcs          map[string]bool
	Intrinsics     map[string]int
	Reach          map[string]int
	Samples        []string
	Assumes        int
	FeasUnknown    int
	CacheHits      int
	CrossChecked   int
	Disagreements  int
	ModelCheckFail int
	Wall           float64
	Observations   [][]string // concrete mode
	Witness        map[string][]Input // one model per reached assert label
	Truncated      bool
	PathSamples    []*PathSample
	ValidatePaths  int
}

// PathSample is a completed violation-free path made concrete by a model of
// its path condition: replayed natively, it must pass and produce the same
// observation trace (translator validation).
type PathSample struct {
	Job     string
	Harness string
	Args    []int64
	Inputs  []Input
	Trace   []string
}

type obsRec struct {
	label string
	terms []*Term
	str   *Str
	text  string
}

type decision struct {
	chosen int
	n      int
	feas   []bool // feasibility of every alternative, computed when the decision was first met
}

// Engine executes one job.
type Engine struct {
	feasRetries, verdictRetries int // patient solver retries used by this job (capped)

	P      *Program
	st     *Store
	job    *Job
	res    *JobResult
	stats  *SolverStats
	solver *Solver
	known  map[string]map[string]bool // finding id -> assertion/event labels it covers
	rng    *rand.Rand

	// exploration
	prefix []decision
	decs   []decision
	pos    int

	// per path
	pc        []*Term
	pcSet     map[int]bool
	flushed   int
	inputs    []Input
	nameCount map[string]int
	globals   map[*ssa.Global]*Value
	initDone  map[*ssa.Package]bool
	knownConds map[string]*Term
	observes  []string
	obs       []obsRec
	pathViol  bool
	clock     *Term
	side      map[*Value]interface{} // side tables: mutex state, sync.Map content, ...
	depth     int
	verdictN  int
	concIdx   map[string]int
	concSeq   int
	th        *threads
	errObjs   map[*ssa.Global]Value
	lemmaDone map[int]bool
	stubs     map[string]*ssa.Function
	models    []map[string]uint64 // models known to satisfy the current path condition (counterexample cache)
	pool      []map[string]uint64 // recent models from earlier paths; re-validated against each new path condition
	cacheHits int
	ranges    map[string][2]int64 // IntRange bounds of inputs (for random model sampling)
	sampleHits int
	shadow    map[*Value]*shadow
	cellName  map[*Value]string
	curSite   string
	ticks     int // remaining ticker firings granted by verifrt.Ticks
	timers    []*ctxState // contexts with a deadline
	tickEpoch int
	randStream bool // crypto/rand yields a concrete stream of pairwise distinct windows
	randPos    int
	numStr    map[string]*Term
	randDraws [][]*Term
	symIPs    map[string]Value
	deadline  time.Time
	overBudget bool
}

func NewEngine(p *Program, job *Job, stats *SolverStats, known map[string]map[string]bool, seed int64) (*Engine, error) {
	e := &Engine{P: p, st: NewStore(), job: job, stats: stats, known: known, rng: rand.New(rand.NewSource(seed))}
	e.res = &JobResult{Job: job, Asserts: map[string]*AssertStat{}, KnownHits: map[string]*Violation{},
		Unsupported: map[string]int{}, Unwind: map[string]int{}, Funcs: map[string]bool{}, Intrinsics: map[string]int{},
		Reach: map[string]int{}, Witness: map[string][]Input{}}
	if job.Primary == "" {
		job.Primary = "z3-new"
	}
	if job.FeasTimeout == 0 {
		job.FeasTimeout = 3 * time.Second
	}
	if job.VerdictTimeout == 0 {
		job.VerdictTimeout = 60 * time.Second
	}
	if job.LoopBound == 0 {
		job.LoopBound = 128
	}
	if job.MaxPaths == 0 {
		job.MaxPaths = 200000
	}
	if job.Concrete == nil && job.ConcreteSeq == nil {
		s, err := NewSolver(e.st, BackendByName(job.Primary), stats, job.FeasTimeout)
		if err != nil {
			return nil, err
		}
		e.solver = s
	}
	return e, nil
}

func (e *Engine) concreteMode() bool { return e.job.Concrete != nil || e.job.ConcreteSeq != nil }

// Run explores every path of the harness.
func (e *Engine) Run() *JobResult {
	t0 := time.Now()
	defer func() {
		if e.solver != nil {
			e.solver.Close()
		}
		e.res.Wall = time.Since(t0).Seconds()
	}()
	fn := e.P.Func(e.job.Harness)
	if fn == nil {
		e.res.Inconclusive = append(e.res.Inconclusive, "harness not found: "+e.job.Harness)
		return e.res
	}
	e.stubs = map[string]*ssa.Function{}
	for k, v := range e.job.Stubs {
		sf := e.P.Func(v)
		if sf == nil {
			e.res.Inconclusive = append(e.res.Inconclusive, "stub not found: "+v)
			return e.res
		}
		e.stubs[k] = sf
	}
	e.res.Expected = e.P.assertLabels(fn)
	e.prefix = nil
	if e.job.Budget == 0 {
		e.job.Budget = 20 * time.Minute
	}
	e.deadline = t0.Add(e.job.Budget)
	for {
		cont := e.runPath(fn)
		if e.overBudget {
			e.res.Truncated = true
			e.res.Inconclusive = append(e.res.Inconclusive, fmt.Sprintf("job time budget of %s exceeded", e.job.Budget))
			break
		}
		if !cont {
			break
		}
		if e.res.Paths+e.res.Infeasible >= e.job.MaxPaths {
			e.res.Truncated = true
			e.res.Inconclusive = append(e.res.Inconclusive, fmt.Sprintf("path budget %d exhausted", e.job.MaxPaths))
			break
		}
		if e.concreteMode() {
			break
		}
		// backtrack to the deepest decision with an unexplored feasible alternative
		k := len(e.decs) - 1
		next := -1
		for ; k >= 0; k-- {
			d := e.decs[k]
			for i := d.chosen + 1; i < d.n; i++ {
				if d.feas[i] {
					next = i
					break
				}
			}
			if next >= 0 {
				break
			}
		}
		if k < 0 {
			break
		}
		e.prefix = append([]decision{}, e.decs[:k]...)
		e.prefix = append(e.prefix, decision{chosen: next, n: e.decs[k].n, feas: e.decs[k].feas})
	}
	return e.res
}

// runPath executes one path. Returns false when exploration must stop.
func (e *Engine) runPath(fn *ssa.Function) (cont bool) {
	e.decs = e.decs[:0]
	e.pos = 0
	e.pc = e.pc[:0]
	e.pcSet = map[int]bool{}
	e.flushed = 0
	e.inputs = nil
	e.nameCount = map[string]int{}
	e.globals = map[*ssa.Global]*Value{}
	e.initDone = map[*ssa.Package]bool{}
	e.knownConds = map[string]*Term{}
	e.observes = nil
	e.obs = nil
	e.pathViol = false
	e.side = map[*Value]interface{}{}
	e.depth = 0
	e.concIdx = map[string]int{}
	e.concSeq = 0
	e.errObjs = map[*ssa.Global]Value{}
	e.lemmaDone = map[int]bool{}
	e.models = append([]map[string]uint64{}, e.pool...)
	e.ranges = map[string][2]int64{}
	e.cellName = map[*Value]string{}
	e.numStr = map[string]*Term{}
	e.randDraws = nil
	e.symIPs = map[string]Value{}
	e.th = nil
	e.ticks = 0
	e.timers = nil
	e.tickEpoch = 0
	e.randStream, e.randPos = false, 0
	e.clock = e.st.Const(64, 1<<60)
	if e.solver != nil {
		e.solver.PopTo(0)
		e.solver.Push()
	}
	cont = true
	completed := false
	func() {
		defer func() {
			if r := recover(); r != nil {
				e.killThreads()
				switch x := r.(type) {
				case *abortSignal:
					switch x.kind {
					case abortInfeasible, abortExhausted:
						e.res.Infeasible++
					case abortUnsupported:
						e.res.Unsupported[x.msg]++
						e.res.Paths++
					case abortUnwind:
						e.res.Unwind[x.msg]++
						e.res.Paths++
					case abortDone:
						e.res.Paths++
						completed = true
					case abortViolation:
						e.res.Paths++
					}
				case *goPanic:
					// unrecovered Go panic at harness top level
					e.res.Paths++
					e.reportEvent("panic", "unrecovered panic", x.String())
				default:
					panic(r)
				}
			}
		}()
		args := make([]Value, len(fn.Params))
		for i := range args {
			var v int64
			if i < len(e.job.Args) {
				v = e.job.Args[i]
			}
			w := intWidth(fn.Params[i].Type())
			if w < 0 {
				panic(unsupported("harness parameter type " + fn.Params[i].Type().String()))
			}
			args[i] = e.st.Const(w, uint64(v))
		}
		e.runMain(fn, args)
		if os.Getenv("SYMGO_TRACE") != "" {
			var ds []string
			for _, d := range e.decs {
				ds = append(ds, fmt.Sprintf("%d/%d%v", d.chosen, d.n, d.feas))
			}
			fmt.Fprintf(os.Stderr, "PATH %s\n", strings.Join(ds, " "))
		}
		e.res.Paths++
		completed = true
		e.samplePath()
	}()
	_ = completed
	e.res.CacheHits += e.cacheHits
	e.cacheHits = 0
	if e.concreteMode() {
		e.res.Observations = append(e.res.Observations, e.observes)
	}
	if e.job.StopAtFirst && len(e.res.Violations) > 0 {
		return false
	}
	return cont
}

// addPC appends a conjunct to the path condition.
func (e *Engine) addPC(c *Term) {
	if c.IsTrue() || e.pcSet[c.ID] {
		return
	}
	e.pc = append(e.pc, c)
	e.pcSet[c.ID] = true
	if len(e.models) > 0 {
		keep := e.models[:0]
		for _, m := range e.models {
			if e.st.Eval(c, m, map[int]uint64{}) != 0 {
				keep = append(keep, m)
			}
		}
		e.models = keep
	}
	if c.Op == OpAnd {
		for _, a := range c.Args {
			e.pcSet[a.ID] = true
		}
	}
}

func (e *Engine) flush() {
	for e.flushed < len(e.pc) {
		c := e.pc[e.flushed]
		e.emitLemmas(c)
		e.solver.Assert(c)
		e.flushed++
	}
}

// syntactic returns (value, true) if c is decided by the path condition syntactically.
func (e *Engine) syntactic(c *Term) (bool, bool) {
	if c.IsConst() {
		return c.Val != 0, true
	}
	if e.pcSet[c.ID] {
		return true, true
	}
	if c.Op == OpNot && e.pcSet[c.Args[0].ID] {
		return false, true
	}
	if n := e.st.Not(c); e.pcSet[n.ID] {
		return false, true
	}
	return false, false
}

// feasible asks whether pc ∧ c is satisfiable (Unknown counts as feasible).
func (e *Engine) feasible(c *Term) bool {
	if v, ok := e.syntactic(c); ok {
		return v
	}
	e.checkBudget()
	if e.concreteMode() {
		panic("feasible() on symbolic term in concrete mode: " + c.String())
	}
	if os.Getenv("SYMGO_NOCACHE") == "" {
		for _, m := range e.models {
			if e.st.Eval(c, m, map[int]uint64{}) != 0 {
				e.cacheHits++
				return true
			}
		}
	}
	if e.job.RandomModels > 0 {
		if m := e.sampleModel(c, e.job.RandomModels); m != nil {
			e.sampleHits++
			e.keepModel(m)
			return true
		}
	}
	e.flush()
	e.solver.Push()
	e.emitLemmas(c)
	e.solver.Assert(c)
	r := e.solver.Check("feasibility")
	if r == Sat {
		m := e.solver.Model()
		// keep only verified models
		ok := e.st.Eval(c, m, map[int]uint64{}) != 0
		if ok {
			memo := map[int]uint64{}
			for _, p := range e.pc {
				if e.st.Eval(p, m, memo) == 0 {
					ok = false
					break
				}
			}
		}
		if ok {
			e.keepModel(m)
		}
	}
	var script string
	if r == Unknown {
		script = e.solver.Script(nil, true)
	}
	e.solver.Pop()
	if r == Unknown {
		// second opinion from the other solver families before keeping the branch blindly
		others := []string{"cvc5", "cvc5-int"}
		if strings.HasPrefix(e.job.Primary, "cvc5") {
			others = []string{"z3-new", "z3"}
		}
		r2, m2, _, _ := Portfolio(script, e.job.FeasTimeout, e.stats, "feasibility-portfolio", others, false)
		if r2 == Unknown && e.feasRetries < 5 {
			// a loaded machine makes short wall-clock timeouts meaningless: a patient retry with every back end
			// (a few per job only: a change that makes the queries genuinely hard must not stall the check)
			e.feasRetries++
			r2, m2, _, _ = Portfolio(script, 6*e.job.FeasTimeout, e.stats, "feasibility-portfolio-retry", []string{"z3", "z3-new", "cvc5", "cvc5-int"}, false)
		}
		switch r2 {
		case Sat:
			memo := map[int]uint64{}
			ok := e.st.Eval(c, m2, memo) != 0
			for _, p := range e.pc {
				if ok && e.st.Eval(p, m2, memo) == 0 {
					ok = false
				}
			}
			if ok {
				e.keepModel(m2)
			}
			return true
		case Unsat:
			return false
		}
		e.res.FeasUnknown++
		return true
	}
	return r == Sat
}

// choose selects one of n alternatives, cond(i) being the constraint of
// alternative i. The alternative's constraint is added to the path condition.
func (e *Engine) choose(n int, cond func(i int) *Term, exhaustive bool) int {
	if n <= 0 {
		panic(&abortSignal{kind: abortInfeasible})
	}
	if e.pos < len(e.prefix) {
		d := e.prefix[e.pos]
		e.pos++
		e.decs = append(e.decs, d)
		e.addPC(cond(d.chosen))
		return d.chosen
	}
	// a new decision point: settle the feasibility of every alternative now,
	// while the state is live, so that backtracking never re-executes a
	// prefix only to find the alternative infeasible.
	e.res.Decisions++
	feas := make([]bool, n)
	first, count := -1, 0
	for i := 0; i < n; i++ {
		c := cond(i)
		ok := false
		if exhaustive && i == n-1 && count == 0 {
			// alternatives are exhaustive and the path condition is satisfiable: the last one must be feasible
			ok = true
			if v, dec := e.syntactic(c); dec && !v {
				ok = false
			}
		} else {
			ok = e.feasible(c)
		}
		feas[i] = ok
		if ok {
			count++
			if first < 0 {
				first = i
			}
		}
	}
	if first < 0 {
		panic(&abortSignal{kind: abortExhausted})
	}
	// forced decisions (one feasible alternative) are recorded too: a replay
	// must consume exactly one prefix entry per decision point
	e.pos++
	e.decs = append(e.decs, decision{chosen: first, n: n, feas: feas})
	e.prefix = append(e.prefix, decision{chosen: first, n: n, feas: feas})
	e.addPC(cond(first))
	return first
}

// branch decides a Boolean condition, forking if both sides are feasible.
func (e *Engine) branch(c *Term) bool {
	if v, ok := e.syntactic(c); ok {
		return v
	}
	if e.concreteMode() {
		panic("symbolic branch in concrete mode: " + c.String())
	}
	nc := e.st.Not(c)
	i := e.choose(2, func(i int) *Term {
		if i == 0 {
			return c
		}
		return nc
	}, true)
	return i == 0
}

// concretize forks over the possible values lo..hi of an integer term.
func (e *Engine) concretize(t *Term, lo, hi int64, what string) int64 {
	if t.IsConst() {
		return t.SVal()
	}
	n := int(hi - lo + 1)
	if n <= 0 || n > 4096 {
		panic(unsupported("concretize range too large: " + what))
	}
	// first exclude out-of-range values
	in := e.st.And(e.st.Cmp(OpSLe, e.st.Const(t.W, uint64(lo)), t), e.st.Cmp(OpSLe, t, e.st.Const(t.W, uint64(hi))))
	if !e.branch(in) {
		panic(unsupported("value outside concretization range: " + what))
	}
	i := e.choose(n, func(i int) *Term { return e.st.Eq(t, e.st.Const(t.W, uint64(lo+int64(i)))) }, true)
	return lo + int64(i)
}

// assume restricts the path.
func (e *Engine) assume(c *Term) {
	e.res.Assumes++
	if v, ok := e.syntactic(c); ok {
		if !v {
			panic(&abortSignal{kind: abortInfeasible})
		}
		return
	}
	if !e.feasible(c) {
		panic(&abortSignal{kind: abortInfeasible})
	}
	e.addPC(c)
}

// newInput creates a fresh symbolic input (or reads it from the concrete vector).
func (e *Engine) newInput(name, kind string, w int) *Term {
	k := e.nameCount[name]
	e.nameCount[name] = k + 1
	full := name
	if k > 0 {
		full = fmt.Sprintf("%s@%d", name, k)
	}
	var t *Term
	if e.concreteMode() {
		var v uint64
		if e.job.ConcreteSeq != nil {
			if e.concSeq < len(e.job.ConcreteSeq) {
				v = e.job.ConcreteSeq[e.concSeq]
			}
			e.concSeq++
		} else {
			vs := e.job.Concrete[name]
			i := e.concIdx[name]
			if i < len(vs) {
				v = vs[i]
			}
			e.concIdx[name] = i + 1
		}
		t = e.st.Const(w, v)
	} else {
		t = e.st.Var(full, w)
	}
	e.inputs = append(e.inputs, Input{Name: full, Kind: kind, W: w, term: t})
	return t
}

// recordChoice records a concrete harness-level choice as an input.
func (e *Engine) recordChoice(name string, v int) {
	k := e.nameCount[name]
	e.nameCount[name] = k + 1
	full := name
	if k > 0 {
		full = fmt.Sprintf("%s@%d", name, k)
	}
	e.inputs = append(e.inputs, Input{Name: full, Kind: "choice", W: 64, term: e.st.Const(64, uint64(v))})
}

func (e *Engine) modelInputs(m map[string]uint64) []Input {
	out := make([]Input, len(e.inputs))
	memo := map[int]uint64{}
	for i, in := range e.inputs {
		out[i] = in
		out[i].Val = e.st.Eval(in.term, m, memo)
	}
	return out
}

// verdict decides pc ∧ extra. It uses the incremental primary back end first
// and falls back to the portfolio; models are validated by evaluation.
func (e *Engine) verdict(extra *Term, kind string) (Result, map[string]uint64, string) {
	if v, ok := e.syntactic(extra); ok && !v {
		return Unsat, nil, "syntactic"
	}
	e.verdictN++
	e.flush()
	e.solver.Push()
	e.emitLemmas(extra)
	e.solver.Assert(extra)
	r := e.solver.Check(kind)
	var m map[string]uint64
	backend := e.job.Primary
	if r == Sat {
		m = e.solver.Model()
	}
	var script string
	cross := e.job.CrossCheckEvery > 0 && e.verdictN%e.job.CrossCheckEvery == 0
	if r == Unknown || cross {
		script = e.solver.Script(nil, true)
	}
	e.solver.Pop()
	if r == Unknown {
		names := []string{"z3-new", "z3", "cvc5", "cvc5-int"}
		var disagree bool
		r, m, backend, disagree = Portfolio(script, e.job.VerdictTimeout, e.stats, kind+"-portfolio", names, false)
		if r == Unknown && e.verdictRetries < 2 {
			// a patient retry (at most two per job): wall-clock timeouts say little on a loaded machine
			e.verdictRetries++
			r, m, backend, disagree = Portfolio(script, 2*e.job.VerdictTimeout, e.stats, kind+"-portfolio-retry", names, false)
		}
		_ = disagree
	} else if cross {
		// independent second opinion
		other := e.job.Cross
		if other == "" {
			other = "cvc5"
			if strings.HasPrefix(e.job.Primary, "cvc5") {
				other = "z3"
			}
		}
		ct := e.job.CrossTimeout
		if ct == 0 {
			ct = 20 * time.Second
		}
		r2, _ := OneShot(contextBackground(), BackendByName(other), script, ct, e.stats, kind+"-crosscheck")
		e.res.CrossChecked++
		if r2 != Unknown && r2 != r {
			e.res.Disagreements++
			e.res.Inconclusive = append(e.res.Inconclusive, fmt.Sprintf("solver disagreement on %s: %s=%s %s=%s", kind, e.job.Primary, r, other, r2))
			return Unknown, nil, backend
		}
	}
	if r == Sat {
		// validate the model against the terms
		memo := map[int]uint64{}
		ok := e.st.Eval(extra, m, memo) != 0
		for _, c := range e.pc {
			if e.st.Eval(c, m, memo) == 0 {
				ok = false
				break
			}
		}
		if !ok {
			e.res.ModelCheckFail++
			e.res.Inconclusive = append(e.res.Inconclusive, "model returned by "+backend+" does not satisfy the query ("+kind+")")
			return Unknown, nil, backend
		}
	}
	return r, m, backend
}

// check is the implementation of verifrt.Assert.
func (e *Engine) check(c *Term, label string, kind string) {
	a := e.res.Asserts[label]
	if a == nil {
		a = &AssertStat{}
		e.res.Asserts[label] = a
	}
	a.Reached++
	if c.IsTrue() {
		a.Trivial++
		return
	}
	if e.concreteMode() {
		if c.IsFalse() {
			e.observes = append(e.observes, "ASSERT-FAIL "+label)
		}
		return
	}
	neg := e.st.Not(c)
	// active known-finding predicates
	ids, conds := e.knownFor(label)
	notKnown := []*Term{neg}
	for _, id := range ids {
		notKnown = append(notKnown, e.st.Not(conds[id]))
	}
	violated := false
	r, m, be := e.verdict(e.st.And(notKnown...), "verdict")
	switch r {
	case Unsat:
		a.Unsat++
	case Sat:
		a.Sat++
		violated = true
		e.pathViol = true
		v := &Violation{Job: e.job.ID, Harness: e.job.Harness, Args: e.job.Args, Label: label, Kind: kind,
			Inputs: e.modelInputs(m), Backend: be, Observes: append([]string{}, e.observes...), Threads: e.job.Threads}
		e.res.Violations = append(e.res.Violations, v)
	default:
		a.Unknown++
		e.res.Inconclusive = append(e.res.Inconclusive, "solver unknown on verdict query: "+label)
	}
	for _, id := range ids {
		r, m, be := e.verdict(e.st.And(neg, conds[id]), "known-finding")
		switch r {
		case Sat:
			a.KnownSat++
			violated = true
			e.pathViol = true
			if _, ok := e.res.KnownHits[id]; !ok {
				e.res.KnownHits[id] = &Violation{Job: e.job.ID, Harness: e.job.Harness, Args: e.job.Args, Label: label, Kind: kind,
					Inputs: e.modelInputs(m), Backend: be, Known: id, Threads: e.job.Threads}
			}
		case Unknown:
			a.Unknown++
			e.res.Inconclusive = append(e.res.Inconclusive, "solver unknown on known-finding query: "+label+" / "+id)
		}
	}
	if len(e.res.Witness[label]) == 0 && r != Unknown {
		// reachability witness: a model of the path condition at this assertion
		if rr, mm, _ := e.verdict(e.st.True, "witness"); rr == Sat {
			e.res.Witness[label] = e.modelInputs(mm)
			if len(e.res.Samples) < 6 {
				e.res.Samples = append(e.res.Samples, fmt.Sprintf("%s: reach %q with %s", e.job.ID, label, showInputs(e.res.Witness[label])))
			}
		} else if rr == Unknown && e.solver != nil {
			// witness from the model-less path: leave empty
		}
	}
	if e.job.StopAtFirst && violated && len(e.res.Violations) > 0 {
		panic(&abortSignal{kind: abortViolation})
	}
	// continue under the assumption that the assertion holds (a constantly
	// false assertion cannot be assumed: continue unconstrained so that later
	// assertions on the same path are still examined)
	if c.IsFalse() {
		return
	}
	if violated {
		if !e.feasible(c) {
			panic(&abortSignal{kind: abortInfeasible})
		}
	}
	e.addPC(c)
}

func showInputs(in []Input) string {
	var parts []string
	for _, i := range in {
		if i.W == 0 {
			parts = append(parts, fmt.Sprintf("%s=%v", i.Name, i.Val != 0))
		} else {
			parts = append(parts, fmt.Sprintf("%s=%d", i.Name, signExt(i.Val, i.W)))
		}
		if len(parts) > 24 {
			parts = append(parts, "…")
			break
		}
	}
	return strings.Join(parts, " ")
}

// reportEvent reports a built-in violation (panic, deadlock, race, ...) on the
// current path; the label participates in the known-findings mechanism like an
// assertion label.
func (e *Engine) reportEvent(kind, label, detail string) {
	a := e.res.Asserts[label]
	if a == nil {
		a = &AssertStat{}
		e.res.Asserts[label] = a
	}
	a.Reached++
	if e.concreteMode() {
		e.observes = append(e.observes, "EVENT "+kind+" "+label)
		return
	}
	ids, conds := e.knownFor(label)
	nk := []*Term{e.st.True}
	for _, id := range ids {
		nk = append(nk, e.st.Not(conds[id]))
	}
	r, m, be := e.verdict(e.st.And(nk...), "verdict")
	switch r {
	case Sat:
		a.Sat++
		e.pathViol = true
		e.res.Violations = append(e.res.Violations, &Violation{Job: e.job.ID, Harness: e.job.Harness, Args: e.job.Args,
			Label: label, Kind: kind, Inputs: e.modelInputs(m), Detail: detail, Backend: be, Observes: append([]string{}, e.observes...), Threads: e.job.Threads})
	case Unsat:
		a.Unsat++
	default:
		a.Unknown++
		e.res.Inconclusive = append(e.res.Inconclusive, "solver unknown on event query: "+label)
	}
	for _, id := range ids {
		r, m, be := e.verdict(conds[id], "known-finding")
		if r == Sat {
			a.KnownSat++
			if _, ok := e.res.KnownHits[id]; !ok {
				e.res.KnownHits[id] = &Violation{Job: e.job.ID, Harness: e.job.Harness, Args: e.job.Args, Label: label, Kind: kind,
					Inputs: e.modelInputs(m), Detail: detail, Backend: be, Known: id, Threads: e.job.Threads}
			}
		} else if r == Unknown {
			a.Unknown++
			e.res.Inconclusive = append(e.res.Inconclusive, "solver unknown on known-finding event query: "+label)
		}
	}
}

// samplePath turns the just-completed path into a concrete native test case.
func (e *Engine) samplePath() {
	if e.concreteMode() || e.pathViol || e.job.ValidatePaths == 0 || e.job.Threads {
		return
	}
	n := len(e.res.PathSamples)
	if n >= e.job.ValidatePaths {
		// reservoir: replace with decreasing probability so later paths are represented
		if e.rng.Intn(e.res.Paths+1) >= e.job.ValidatePaths {
			return
		}
	}
	r, m, _ := e.verdict(e.st.True, "path-model")
	if r != Sat {
		return
	}
	ps := &PathSample{Job: e.job.ID, Harness: e.job.Harness, Args: e.job.Args, Inputs: e.modelInputs(m)}
	memo := map[int]uint64{}
	for _, o := range e.obs {
		if o.text != "" {
			ps.Trace = append(ps.Trace, o.text)
			continue
		}
		s := o.label
		if o.str != nil {
			bs := e.strBytes(*o.str)
			buf := make([]byte, len(bs))
			for i, b := range bs {
				buf[i] = byte(e.st.Eval(b, m, memo))
			}
			s += " " + strconv.Quote(string(buf))
		} else {
			for _, t := range o.terms {
				v := e.st.Eval(t, m, memo)
				if t.W == 0 {
					s += " " + strconv.FormatUint(v, 10)
				} else {
					s += " " + strconv.FormatInt(signExt(v, t.W), 10)
				}
			}
		}
		ps.Trace = append(ps.Trace, s)
	}
	if n >= e.job.ValidatePaths {
		e.res.PathSamples[e.rng.Intn(n)] = ps
	} else {
		e.res.PathSamples = append(e.res.PathSamples, ps)
	}
}

// knownFor returns the listed known findings that cover this label together
// with their predicates (a listed finding without a harness predicate covers
// the labelled site unconditionally).
func (e *Engine) knownFor(label string) ([]string, map[string]*Term) {
	var ids []string
	conds := map[string]*Term{}
	for id, labels := range e.known {
		if !labels[label] {
			continue
		}
		if c, ok := e.knownConds[id]; ok {
			conds[id] = c
		} else if labels["\x00always"] {
			// event-only finding declared `always=true` in known_findings.txt
			conds[id] = e.st.True
		} else {
			// a finding whose predicate the harness did not state on this path does not apply here
			continue
		}
		ids = append(ids, id)
	}
	sort.Strings(ids)
	return ids, conds
}

func (e *Engine) keepModel(m map[string]uint64) {
	if len(e.models) >= 8 {
		e.models = e.models[1:]
	}
	e.models = append(e.models, m)
	if len(e.pool) >= 8 {
		e.pool = e.pool[1:]
	}
	e.pool = append(e.pool, m)
}

// sampleModel tries n random assignments of the path's inputs; it returns one
// that satisfies pc ∧ c, or nil. Purely an accelerator for the satisfiable
// side of feasibility queries: "no sample found" proves nothing and the query
// then goes to the solver.
func (e *Engine) sampleModel(c *Term, n int) map[string]uint64 {
	for k := 0; k < n; k++ {
		m := map[string]uint64{}
		for _, in := range e.inputs {
			if in.term.Op != OpVar {
				continue
			}
			var v uint64
			if r, ok := e.ranges[in.Name]; ok {
				span := uint64(r[1]-r[0]) + 1
				switch e.rng.Intn(4) {
				case 0:
					v = uint64(r[0]) + uint64(e.rng.Intn(4))%span
				case 1:
					v = uint64(r[1]) - uint64(e.rng.Intn(4))%span
				default:
					if span == 0 {
						v = e.rng.Uint64()
					} else {
						v = uint64(r[0]) + e.rng.Uint64()%span
					}
				}
			} else {
				v = e.rng.Uint64()
				if in.W >= 8 && e.rng.Intn(3) == 0 {
					v >>= uint(e.rng.Intn(in.W))
				}
			}
			m[in.Name] = v & mask(in.W)
			if in.W == 0 {
				m[in.Name] = v & 1
			}
		}
		memo := map[int]uint64{}
		if e.st.Eval(c, m, memo) == 0 {
			continue
		}
		ok := true
		for _, p := range e.pc {
			if e.st.Eval(p, m, memo) == 0 {
				ok = false
				break
			}
		}
		if ok {
			return m
		}
	}
	return nil
}

func (e *Engine) checkBudget() {
	if !e.deadline.IsZero() && time.Now().After(e.deadline) {
		e.overBudget = true
		panic(&abortSignal{kind: abortViolation, msg: "budget"})
	}
}
