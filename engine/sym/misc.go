package sym

import (
	"strings"

	"golang.org/x/tools/go/ssa"
)

// initPackages runs the package initialisers of the Helios packages (package
// level variables, plugin registration). Initialisers of other packages are
// not executed; their error-typed globals are materialised lazily as distinct
// opaque objects (see globalAddr).
func (e *Engine) initPackages() {
	fn := e.P.Func(e.job.Harness)
	if fn == nil || fn.Pkg == nil {
		return
	}
	init := fn.Pkg.Func("init")
	if init != nil {
		e.callFunction(nil, init, nil, nil)
	}
}

func init() {
	// package initialisers outside Helios are skipped
	skipInit = func(e *Engine, fn *ssa.Function) bool {
		if fn.Pkg == nil {
			return false
		}
		if !strings.HasPrefix(fn.Name(), "init") {
			return false
		}
		if fn.Name() != "init" && !strings.HasPrefix(fn.Name(), "init#") {
			return false
		}
		return !e.P.isHelios(fn.Pkg.Pkg.Path())
	}
}

var skipInit func(e *Engine, fn *ssa.Function) bool

// emitLemmas adds redundant range facts for multiplication / division nodes
// (exact consequences of bit-vector semantics; each schema is discharged
// separately by `symgo lemmas`). They only help the solvers; the encoding of
// the program stays exact.
func (e *Engine) emitLemmas(t *Term) {
	if e.job.NoLemmas || e.solver == nil {
		return
	}
	var walk func(t *Term)
	walk = func(t *Term) {
		if t.Op == OpConst || t.Op == OpVar || e.lemmaDone[t.ID] {
			return
		}
		e.lemmaDone[t.ID] = true
		for _, a := range t.Args {
			walk(a)
		}
		st := e.st
		switch t.Op {
		case OpUDiv:
			a, b := t.Args[0], t.Args[1]
			// b != 0 => a/b <= a ; (b <= a && b != 0) => a/b >= 1
			nz := st.Not(st.Eq(b, st.Const(b.W, 0)))
			e.solver.Assert(st.Implies(nz, st.Cmp(OpULe, t, a)))
			e.solver.Assert(st.Implies(st.And(nz, st.Cmp(OpULe, b, a)), st.Cmp(OpULe, st.Const(t.W, 1), t)))
			e.solver.Assert(st.Implies(st.And(nz, st.Cmp(OpULt, a, b)), st.Eq(t, st.Const(t.W, 0))))
		case OpSDiv:
			a, b := t.Args[0], t.Args[1]
			z := st.Const(t.W, 0)
			pos := st.And(st.Cmp(OpSLe, z, a), st.Cmp(OpSLt, z, b))
			e.solver.Assert(st.Implies(pos, st.And(st.Cmp(OpSLe, z, t), st.Cmp(OpSLe, t, a))))
			e.solver.Assert(st.Implies(st.And(pos, st.Cmp(OpSLe, b, a)), st.Cmp(OpSLe, st.Const(t.W, 1), t)))
			e.solver.Assert(st.Implies(st.And(pos, st.Cmp(OpSLt, a, b)), st.Eq(t, z)))
		case OpMul:
			a, b := t.Args[0], t.Args[1]
			if t.W == 64 && !a.IsConst() && !b.IsConst() {
				z := st.Const(64, 0)
				one := st.Const(64, 1)
				lim := st.Const(64, 1<<31)
				small := st.And(st.Cmp(OpSLe, z, a), st.Cmp(OpSLe, a, lim), st.Cmp(OpSLe, z, b), st.Cmp(OpSLe, b, lim))
				e.solver.Assert(st.Implies(small, st.And(st.Cmp(OpSLe, z, t), st.Cmp(OpSLe, t, st.Const(64, 1<<62)),
					st.Implies(st.Cmp(OpSLe, one, b), st.Cmp(OpSLe, a, t)),
					st.Implies(st.Cmp(OpSLe, one, a), st.Cmp(OpSLe, b, t)))))
			}
		case OpURem:
			a, b := t.Args[0], t.Args[1]
			nz := st.Not(st.Eq(b, st.Const(b.W, 0)))
			e.solver.Assert(st.Implies(nz, st.Cmp(OpULt, t, b)))
			e.solver.Assert(st.Cmp(OpULe, t, a))
		}
	}
	walk(t)
}
