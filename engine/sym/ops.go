package sym

import (
	"fmt"
	"go/token"
	"go/types"
	"math"

	"golang.org/x/tools/go/ssa"
)

func (e *Engine) binop(op token.Token, t types.Type, x, y Value) Value {
	st := e.st
	switch a := x.(type) {
	case *Term:
		b, ok := y.(*Term)
		if !ok {
			panic(unsupported(fmt.Sprintf("binop %s on Term and %T", op, y)))
		}
		if a.W == 0 { // booleans
			switch op {
			case token.EQL:
				return st.Eq(a, b)
			case token.NEQ:
				return st.Not(st.Eq(a, b))
			case token.AND, token.LAND:
				return st.And(a, b)
			case token.OR, token.LOR:
				return st.Or(a, b)
			}
			panic(unsupported("bool binop " + op.String()))
		}
		signed := isSigned(t)
		switch op {
		case token.ADD:
			return st.Bin(OpAdd, a, b)
		case token.SUB:
			return st.Bin(OpSub, a, b)
		case token.MUL:
			return st.Bin(OpMul, a, b)
		case token.QUO, token.REM:
			if b.IsConst() {
				if b.Val == 0 {
					panic(&goPanic{runtime: "integer divide by zero"})
				}
			} else if e.branch(st.Eq(b, st.Const(b.W, 0))) {
				panic(&goPanic{runtime: "integer divide by zero"})
			}
			if op == token.QUO {
				if signed {
					return st.Bin(OpSDiv, a, b)
				}
				return st.Bin(OpUDiv, a, b)
			}
			if signed {
				return st.Bin(OpSRem, a, b)
			}
			return st.Bin(OpURem, a, b)
		case token.AND:
			return st.Bin(OpBAnd, a, b)
		case token.OR:
			return st.Bin(OpBOr, a, b)
		case token.XOR:
			return st.Bin(OpBXor, a, b)
		case token.AND_NOT:
			return st.Bin(OpBAnd, a, st.BNot(b))
		case token.SHL, token.SHR:
			// shift count: any unsigned/int width; saturate to the operand width
			cnt := b
			if cnt.W != a.W {
				if cnt.W < a.W {
					cnt = st.Resize(cnt, a.W, false)
				} else {
					big := st.Cmp(OpULe, st.Const(cnt.W, uint64(a.W)), cnt)
					cnt = st.Ite(big, st.Const(a.W, uint64(a.W)), st.Resize(cnt, a.W, false))
				}
			}
			if op == token.SHL {
				return st.Bin(OpShl, a, cnt)
			}
			if signed {
				return st.Bin(OpAShr, a, cnt)
			}
			return st.Bin(OpLShr, a, cnt)
		case token.EQL:
			return st.Eq(a, b)
		case token.NEQ:
			return st.Not(st.Eq(a, b))
		case token.LSS:
			if signed {
				return st.Cmp(OpSLt, a, b)
			}
			return st.Cmp(OpULt, a, b)
		case token.LEQ:
			if signed {
				return st.Cmp(OpSLe, a, b)
			}
			return st.Cmp(OpULe, a, b)
		case token.GTR:
			if signed {
				return st.Cmp(OpSLt, b, a)
			}
			return st.Cmp(OpULt, b, a)
		case token.GEQ:
			if signed {
				return st.Cmp(OpSLe, b, a)
			}
			return st.Cmp(OpULe, b, a)
		}
		panic(unsupported("int binop " + op.String()))
	case Str:
		b := y.(Str)
		switch op {
		case token.ADD:
			return e.strConcat(a, b)
		case token.EQL:
			return e.strEq(a, b)
		case token.NEQ:
			return st.Not(e.strEq(a, b))
		case token.LSS, token.LEQ, token.GTR, token.GEQ:
			if !a.IsSym() && !b.IsSym() {
				switch op {
				case token.LSS:
					return st.Bool(a.S < b.S)
				case token.LEQ:
					return st.Bool(a.S <= b.S)
				case token.GTR:
					return st.Bool(a.S > b.S)
				case token.GEQ:
					return st.Bool(a.S >= b.S)
				}
			}
			panic(unsupported("ordered comparison of symbolic strings"))
		}
	case Float:
		b := y.(Float)
		if a.Opaque || b.Opaque {
			switch op {
			case token.ADD, token.SUB, token.MUL, token.QUO:
				return Float{Opaque: true}
			default:
				// comparison of havocked floats: unconstrained
				return e.fresh("fcmp", 0)
			}
		}
		switch op {
		case token.ADD:
			return Float{F: a.F + b.F}
		case token.SUB:
			return Float{F: a.F - b.F}
		case token.MUL:
			return Float{F: a.F * b.F}
		case token.QUO:
			return Float{F: a.F / b.F}
		case token.EQL:
			return st.Bool(a.F == b.F)
		case token.NEQ:
			return st.Bool(a.F != b.F)
		case token.LSS:
			return st.Bool(a.F < b.F)
		case token.LEQ:
			return st.Bool(a.F <= b.F)
		case token.GTR:
			return st.Bool(a.F > b.F)
		case token.GEQ:
			return st.Bool(a.F >= b.F)
		}
	default:
		switch op {
		case token.EQL:
			return e.valueEq(x, y)
		case token.NEQ:
			return st.Not(e.valueEq(x, y))
		}
	}
	panic(unsupported(fmt.Sprintf("binop %s on %T", op, x)))
}

// fresh returns an unconstrained engine-internal variable (not a replay input).
func (e *Engine) fresh(name string, w int) *Term {
	if e.concreteMode() {
		return e.st.Const(w, 0)
	}
	k := e.nameCount["$"+name]
	e.nameCount["$"+name] = k + 1
	return e.st.Var(fmt.Sprintf("$%s@%d", name, k), w)
}

func (e *Engine) strBytes(s Str) []*Term {
	if s.IsSym() {
		return s.Sym
	}
	out := make([]*Term, len(s.S))
	for i := 0; i < len(s.S); i++ {
		out[i] = e.st.Const(8, uint64(s.S[i]))
	}
	return out
}

// normStr turns a symbolic string whose bytes are all constant into a concrete one.
func (e *Engine) normStr(bs []*Term) Str {
	buf := make([]byte, len(bs))
	for i, b := range bs {
		if !b.IsConst() {
			if len(bs) == 0 {
				return Str{}
			}
			return Str{Sym: bs}
		}
		buf[i] = byte(b.Val)
	}
	return Str{S: string(buf)}
}

func (e *Engine) strConcat(a, b Str) Str {
	if !a.IsSym() && !b.IsSym() {
		return Str{S: a.S + b.S}
	}
	if a.Len() == 0 {
		return b
	}
	if b.Len() == 0 {
		return a
	}
	bs := append(append([]*Term{}, e.strBytes(a)...), e.strBytes(b)...)
	return e.normStr(bs)
}

func (e *Engine) strEq(a, b Str) *Term {
	if !a.IsSym() && !b.IsSym() {
		return e.st.Bool(a.S == b.S)
	}
	if a.Len() != b.Len() {
		return e.st.False
	}
	x, y := e.strBytes(a), e.strBytes(b)
	cs := make([]*Term, len(x))
	for i := range x {
		cs[i] = e.st.Eq(x[i], y[i])
	}
	return e.st.And(cs...)
}

// valueEq is Go's == on arbitrary comparable values.
func (e *Engine) valueEq(x, y Value) *Term {
	st := e.st
	switch a := x.(type) {
	case nil:
		switch b := y.(type) {
		case nil:
			return st.True
		case Iface:
			return st.Bool(b.T == nil)
		case *Value:
			return st.Bool(b == nil)
		case *Map:
			return st.Bool(b == nil)
		case Slice:
			return st.Bool(b.Nil)
		case FuncNil:
			return st.True
		case *Closure, *ssa.Function, *NativeFn:
			return st.False
		case *Chan:
			return st.Bool(b == nil)
		}
	case *Term:
		if b, ok := y.(*Term); ok {
			return st.Eq(a, b)
		}
	case Str:
		if b, ok := y.(Str); ok {
			return e.strEq(a, b)
		}
	case Float:
		if b, ok := y.(Float); ok {
			if a.Opaque || b.Opaque {
				return e.fresh("feq", 0)
			}
			return st.Bool(a.F == b.F)
		}
	case *Value:
		switch b := y.(type) {
		case *Value:
			return st.Bool(a == b)
		case nil:
			return st.Bool(a == nil)
		}
	case *Map:
		switch b := y.(type) {
		case *Map:
			return st.Bool(a == b)
		case nil:
			return st.Bool(a == nil)
		}
	case *Chan:
		switch b := y.(type) {
		case *Chan:
			return st.Bool(a == b)
		case nil:
			return st.Bool(a == nil)
		}
	case Opaque:
		if b, ok := y.(Opaque); ok {
			return st.Bool(a.V == b.V) // comparable library values (netip.Addr, Prefix, AddrPort)
		}
	case Slice:
		if y == nil {
			return st.Bool(a.Nil)
		}
		if b, ok := y.(Slice); ok && b.Nil {
			return st.Bool(a.Nil)
		}
	case FuncNil:
		switch y.(type) {
		case FuncNil, nil:
			return st.True
		case *Closure, *ssa.Function, *NativeFn:
			return st.False
		}
	case *Closure, *ssa.Function, *NativeFn:
		switch y.(type) {
		case FuncNil, nil:
			return st.False
		}
	case Iface:
		switch b := y.(type) {
		case nil:
			return st.Bool(a.T == nil)
		case Iface:
			if a.T == nil || b.T == nil {
				return st.Bool(a.T == nil && b.T == nil)
			}
			if !types.Identical(a.T, b.T) {
				return st.False
			}
			return e.valueEq(a.V, b.V)
		}
	case Struct:
		if b, ok := y.(Struct); ok && len(a) == len(b) {
			cs := make([]*Term, len(a))
			for i := range a {
				cs[i] = e.valueEq(a[i], b[i])
			}
			return st.And(cs...)
		}
	case Array:
		if b, ok := y.(Array); ok && len(a) == len(b) {
			cs := make([]*Term, len(a))
			for i := range a {
				cs[i] = e.valueEq(a[i], b[i])
			}
			return st.And(cs...)
		}
	}
	panic(unsupported(fmt.Sprintf("== on %T and %T", x, y)))
}

func (e *Engine) convert(from, to types.Type, x Value) Value {
	st := e.st
	uf, ut := from.Underlying(), to.Underlying()
	switch v := x.(type) {
	case *Term:
		if v.W == 0 {
			return v
		}
		switch {
		case isIntegerT(to):
			return st.Resize(v, intWidth(to), isSigned(from))
		case isFloatT(to):
			if v.IsConst() {
				if isSigned(from) {
					return Float{F: float64(v.SVal())}
				}
				return Float{F: float64(v.Val)}
			}
			// integer-valued float: remember the integer so that a conversion back is exact
			return Float{Opaque: true, I: st.Resize(v, 64, isSigned(from))}
		case isStringT(to):
			// string(rune)
			if v.IsConst() {
				return Str{S: string(rune(v.SVal()))}
			}
			panic(unsupported("string(symbolic rune)"))
		}
		if b, ok := ut.(*types.Basic); ok && b.Kind() == types.UnsafePointer {
			panic(unsupported("conversion to unsafe.Pointer"))
		}
	case Float:
		switch {
		case isFloatT(to):
			if b := ut.(*types.Basic); b.Kind() == types.Float32 && !v.Opaque {
				return Float{F: float64(float32(v.F))}
			}
			return v
		case isIntegerT(to):
			w := intWidth(to)
			if v.Opaque {
				if v.I != nil {
					return st.Resize(v.I, w, true)
				}
				return e.fresh("f2i", w)
			}
			if isSigned(to) {
				return st.Const(w, uint64(int64(v.F)))
			}
			if v.F < 0 {
				return st.Const(w, uint64(int64(v.F)))
			}
			if v.F >= math.MaxInt64 {
				return st.Const(w, uint64(v.F))
			}
			return st.Const(w, uint64(v.F))
		}
	case Str:
		if isStringT(to) {
			return v
		}
		if sl, ok := ut.(*types.Slice); ok {
			if b, ok := sl.Elem().Underlying().(*types.Basic); ok && b.Kind() == types.Uint8 {
				bs := e.strBytes(v)
				out := make([]Value, len(bs))
				for i, t := range bs {
					out[i] = t
				}
				return Slice{V: out}
			}
		}
	case Slice:
		if isStringT(to) {
			if sl, ok := uf.(*types.Slice); ok {
				if b, ok := sl.Elem().Underlying().(*types.Basic); ok && b.Kind() == types.Uint8 {
					bs := make([]*Term, len(v.V))
					for i, t := range v.V {
						bs[i] = t.(*Term)
					}
					return e.normStr(bs)
				}
			}
		}
		if _, ok := ut.(*types.Slice); ok {
			return v
		}
	case *Value:
		if _, ok := ut.(*types.Pointer); ok {
			return v
		}
	}
	if types.Identical(uf, ut) {
		return x
	}
	panic(unsupported(fmt.Sprintf("convert %s -> %s (%T)", from, to, x)))
}

// indexChoice resolves a possibly symbolic index into a concrete one: bounds
// check (run-time panic path) then case split.
func (e *Engine) indexChoice(idx *Term, n int, signed bool) int {
	st := e.st
	if idx.IsConst() {
		var i int64
		if signed {
			i = idx.SVal()
		} else {
			i = int64(idx.Val)
			if idx.Val > math.MaxInt64 {
				i = -1
			}
		}
		if i < 0 || i >= int64(n) {
			panic(&goPanic{runtime: fmt.Sprintf("index out of range [%d] with length %d", i, n)})
		}
		return int(i)
	}
	inRange := st.Cmp(OpULt, idx, st.Const(idx.W, uint64(n)))
	if !e.branch(inRange) {
		panic(&goPanic{runtime: fmt.Sprintf("index out of range [symbolic] with length %d", n)})
	}
	return e.choose(n, func(i int) *Term { return st.Eq(idx, st.Const(idx.W, uint64(i))) }, true)
}

func (fr *frame) index(in *ssa.Index) Value {
	e := fr.e
	x := fr.get(in.X)
	idx := e.asInt(fr.get(in.Index))
	switch v := x.(type) {
	case Array:
		if !idx.IsConst() && len(v) > 0 {
			// array of scalars read at a symbolic index: if-then-else chain instead of a fork per element
			allTerms := true
			for _, el := range v {
				if _, ok := el.(*Term); !ok {
					allTerms = false
					break
				}
			}
			if allTerms {
				st := e.st
				if !e.branch(st.Cmp(OpULt, idx, st.Const(idx.W, uint64(len(v))))) {
					panic(&goPanic{runtime: fmt.Sprintf("index out of range [symbolic] with length %d", len(v))})
				}
				r := v[len(v)-1].(*Term)
				for i := len(v) - 2; i >= 0; i-- {
					r = st.Ite(st.Eq(idx, st.Const(idx.W, uint64(i))), v[i].(*Term), r)
				}
				return r
			}
		}
		i := e.indexChoice(idx, len(v), isSigned(in.Index.Type()))
		return copyVal(v[i])
	case Str:
		if !idx.IsConst() {
			return e.strAtSym(v, idx)
		}
		i := e.indexChoice(idx, v.Len(), isSigned(in.Index.Type()))
		if v.IsSym() {
			return v.Sym[i]
		}
		return e.st.Const(8, uint64(v.S[i]))
	}
	panic(unsupported(fmt.Sprintf("Index on %T", x)))
}

func (fr *frame) indexAddr(in *ssa.IndexAddr) Value {
	e := fr.e
	x := fr.get(in.X)
	idx := e.asInt(fr.get(in.Index))
	signed := isSigned(in.Index.Type())
	switch v := x.(type) {
	case Slice:
		i := e.indexChoice(idx, len(v.V), signed)
		return &v.V[i]
	case *Value: // pointer to array
		if v == nil {
			panic(&goPanic{runtime: "invalid memory address or nil pointer dereference"})
		}
		arr, ok := (*v).(Array)
		if !ok {
			panic(unsupported(fmt.Sprintf("IndexAddr through pointer to %T", *v)))
		}
		i := e.indexChoice(idx, len(arr), signed)
		return &arr[i]
	}
	panic(unsupported(fmt.Sprintf("IndexAddr on %T", x)))
}

func (fr *frame) slice(in *ssa.Slice) Value {
	e := fr.e
	x := fr.get(in.X)
	bound := func(v ssa.Value, def int, max int) int {
		if v == nil {
			return def
		}
		t := e.asInt(fr.get(v))
		if t.IsConst() {
			return int(t.SVal())
		}
		return int(e.concretize(t, 0, int64(max), "slice bound"))
	}
	switch v := x.(type) {
	case Str:
		n := v.Len()
		lo := bound(in.Low, 0, n)
		hi := bound(in.High, n, n)
		if lo < 0 || hi > n || lo > hi {
			panic(&goPanic{runtime: fmt.Sprintf("slice bounds out of range [%d:%d] with length %d", lo, hi, n)})
		}
		if v.IsSym() {
			if hi == lo {
				return Str{}
			}
			return e.normStr(v.Sym[lo:hi])
		}
		return Str{S: v.S[lo:hi]}
	case Slice:
		n, c := len(v.V), cap(v.V)
		lo := bound(in.Low, 0, c)
		hi := bound(in.High, n, c)
		mx := bound(in.Max, c, c)
		if lo < 0 || hi > c || lo > hi || mx > c || hi > mx {
			panic(&goPanic{runtime: fmt.Sprintf("slice bounds out of range [%d:%d:%d] with capacity %d", lo, hi, mx, c)})
		}
		if v.Nil && lo == 0 && hi == 0 {
			return Slice{Nil: true}
		}
		return Slice{V: v.V[lo:hi:mx]}
	case *Value:
		if v == nil {
			panic(&goPanic{runtime: "invalid memory address or nil pointer dereference"})
		}
		arr, ok := (*v).(Array)
		if !ok {
			panic(unsupported(fmt.Sprintf("slice of pointer to %T", *v)))
		}
		n := len(arr)
		lo := bound(in.Low, 0, n)
		hi := bound(in.High, n, n)
		mx := bound(in.Max, n, n)
		if lo < 0 || hi > n || lo > hi || mx > n || hi > mx {
			panic(&goPanic{runtime: "slice bounds out of range"})
		}
		return Slice{V: []Value(arr)[lo:hi:mx]}
	}
	panic(unsupported(fmt.Sprintf("Slice on %T", x)))
}

// mapFind returns the position of key in m (forking on symbolic equality), or -1.
func (e *Engine) mapFind(m *Map, key Value) int {
	if m == nil {
		return -1
	}
	for i, k := range m.Keys {
		c := e.valueEq(k, key)
		if e.branch(c) {
			return i
		}
	}
	return -1
}

// mapAccess records a read or write of the map as a whole for the race detector.
func (e *Engine) mapAccess(m *Map, write bool) {
	if m == nil || e.th == nil || !e.job.Threads {
		return
	}
	if m.cell == nil {
		m.cell = new(Value)
		name := "map"
		if m.KT != nil && m.VT != nil {
			name = "map[" + m.KT.String() + "]" + m.VT.String()
		}
		e.cellName[m.cell] = name
	}
	e.access(m.cell, write)
}

func (e *Engine) mapSet(m *Map, key, val Value) {
	e.mapAccess(m, true)
	if i := e.mapFind(m, key); i >= 0 {
		m.Vals[i] = copyVal(val)
		return
	}
	m.Keys = append(m.Keys, copyVal(key))
	m.Vals = append(m.Vals, copyVal(val))
}

func (e *Engine) mapDelete(m *Map, key Value) {
	e.mapAccess(m, true)
	if i := e.mapFind(m, key); i >= 0 {
		m.Keys = append(append([]Value{}, m.Keys[:i]...), m.Keys[i+1:]...)
		m.Vals = append(append([]Value{}, m.Vals[:i]...), m.Vals[i+1:]...)
	}
}

func (fr *frame) lookup(in *ssa.Lookup) Value {
	e := fr.e
	x := fr.get(in.X)
	switch v := x.(type) {
	case *Map:
		vt := in.X.Type().Underlying().(*types.Map).Elem()
		e.mapAccess(v, false)
		i := e.mapFind(v, fr.get(in.Index))
		var res Value
		if i >= 0 {
			res = copyVal(v.Vals[i])
		} else {
			res = e.zero(vt)
		}
		if in.CommaOk {
			return Tuple{res, e.st.Bool(i >= 0)}
		}
		return res
	case Str:
		idx := e.asInt(fr.get(in.Index))
		if !idx.IsConst() {
			return e.strAtSym(v, idx)
		}
		i := e.indexChoice(idx, v.Len(), isSigned(in.Index.Type()))
		if v.IsSym() {
			return v.Sym[i]
		}
		return e.st.Const(8, uint64(v.S[i]))
	}
	panic(unsupported(fmt.Sprintf("Lookup on %T", x)))
}

func (fr *frame) next(in *ssa.Next) Value {
	e := fr.e
	it := fr.get(in.Iter).(*rangeIter)
	if it.isS {
		n := it.s.Len()
		if it.i >= n {
			return Tuple{e.st.False, e.st.Const(64, 0), e.st.Const(32, 0)}
		}
		i := it.i
		it.i++
		var b *Term
		if it.s.IsSym() {
			b = it.s.Sym[i]
			// ASCII only: multi-byte sequences are outside the string model
			if !b.IsConst() {
				if !e.branch(e.st.Cmp(OpULt, b, e.st.Const(8, 0x80))) {
					panic(unsupported("range over symbolic non-ASCII string"))
				}
			}
		} else {
			c := it.s.S[i]
			if c >= 0x80 {
				panic(unsupported("range over non-ASCII string"))
			}
			b = e.st.Const(8, uint64(c))
		}
		return Tuple{e.st.True, e.st.Const(64, uint64(i)), e.st.Resize(b, 32, false)}
	}
	// map: skip entries deleted from the live map since the snapshot
	for it.i < len(it.m.Keys) {
		i := it.i
		it.i++
		k := it.m.Keys[i]
		if it.live != nil {
			found := false
			for j, lk := range it.live.Keys {
				if c := e.valueEq(lk, k); c.IsTrue() {
					found = true
					return Tuple{e.st.True, copyVal(k), copyVal(it.live.Vals[j])}
				}
			}
			if !found {
				continue
			}
		}
		return Tuple{e.st.True, copyVal(k), copyVal(it.m.Vals[i])}
	}
	return Tuple{e.st.False, nil, nil}
}

func (e *Engine) callBuiltin(fr *frame, b *ssa.Builtin, args []Value, c *ssa.CallCommon) Value {
	st := e.st
	switch b.Name() {
	case "len":
		switch v := args[0].(type) {
		case Str:
			return st.Const(64, uint64(v.Len()))
		case Slice:
			return st.Const(64, uint64(len(v.V)))
		case Array:
			return st.Const(64, uint64(len(v)))
		case *Map:
			if v == nil {
				return st.Const(64, 0)
			}
			return st.Const(64, uint64(len(v.Keys)))
		case *Chan:
			if v == nil {
				return st.Const(64, 0)
			}
			return st.Const(64, uint64(len(v.Buf)))
		case *Value:
			if v != nil {
				if a, ok := (*v).(Array); ok {
					return st.Const(64, uint64(len(a)))
				}
			}
		}
	case "cap":
		switch v := args[0].(type) {
		case Slice:
			return st.Const(64, uint64(cap(v.V)))
		case Array:
			return st.Const(64, uint64(len(v)))
		case *Chan:
			return st.Const(64, uint64(v.Cap))
		}
	case "append":
		dst := args[0].(Slice)
		var add []Value
		switch s := args[1].(type) {
		case Slice:
			add = s.V
		case Str:
			for _, t := range e.strBytes(s) {
				add = append(add, t)
			}
		case nil:
		default:
			panic(unsupported(fmt.Sprintf("append of %T", args[1])))
		}
		if len(add) == 0 {
			return dst
		}
		out := dst.V
		for _, v := range add {
			out = append(out, copyVal(v))
		}
		return Slice{V: out}
	case "copy":
		dst := args[0].(Slice)
		var src []Value
		switch s := args[1].(type) {
		case Slice:
			src = s.V
		case Str:
			for _, t := range e.strBytes(s) {
				src = append(src, t)
			}
		}
		n := len(dst.V)
		if len(src) < n {
			n = len(src)
		}
		tmp := make([]Value, n)
		for i := 0; i < n; i++ {
			tmp[i] = copyVal(src[i])
		}
		for i := 0; i < n; i++ {
			e.storeRec(&dst.V[i], tmp[i])
		}
		return st.Const(64, uint64(n))
	case "delete":
		m := args[0].(*Map)
		e.mapDelete(m, args[1])
		return nil
	case "close":
		ch := args[0].(*Chan)
		if ch == nil {
			panic(&goPanic{runtime: "close of nil channel"})
		}
		if ch.Closed {
			panic(&goPanic{runtime: "close of closed channel"})
		}
		ch.Closed = true
		e.chanClosed(ch)
		return nil
	case "panic":
		panic(&goPanic{val: args[0]})
	case "recover":
		return e.doRecover(fr)
	case "print", "println":
		return nil
	case "min", "max":
		acc := args[0].(*Term)
		signed := true
		if c != nil {
			signed = isSigned(c.Args[0].Type())
		}
		for _, a := range args[1:] {
			t := a.(*Term)
			var lt *Term
			if signed {
				lt = st.Cmp(OpSLt, t, acc)
			} else {
				lt = st.Cmp(OpULt, t, acc)
			}
			if b.Name() == "max" {
				lt = st.Not(st.Or(lt, st.Eq(t, acc)))
			}
			acc = st.Ite(lt, t, acc)
		}
		return acc
	case "clear":
		if m, ok := args[0].(*Map); ok && m != nil {
			m.Keys, m.Vals = nil, nil
			return nil
		}
	}
	panic(unsupported("builtin " + b.Name()))
}

// doRecover implements recover(): effective only when called directly by a
// deferred function of a panicking frame.
func (e *Engine) doRecover(callee *frame) Value {
	if callee != nil && callee.caller != nil && callee.caller.panicking {
		p := callee.caller
		p.panicking = false
		gp := p.panicVal
		p.panicVal = nil
		if gp.runtime != "" {
			return e.newErrorIface("runtime error: " + gp.runtime)
		}
		return gp.val
	}
	return Iface{}
}

func (fr *frame) selectInstr(in *ssa.Select) Value {
	e := fr.e
	// supported: non-blocking select over receive cases on closable channels,
	// blocking select handled by the thread layer
	type st struct {
		ch  *Chan
		dir types.ChanDir
	}
	var states []st
	for _, s := range in.States {
		ch, _ := fr.get(s.Chan).(*Chan)
		states = append(states, st{ch, s.Dir})
		if s.Dir != types.RecvOnly {
			panic(unsupported("select with send case"))
		}
	}
	mk := func(idx int, ok bool) Value {
		t := Tuple{e.st.Const(64, uint64(int64(idx))), e.st.Bool(ok)}
		for _, s := range in.States {
			if s.Dir == types.RecvOnly {
				t = append(t, e.zero(s.Chan.Type().Underlying().(*types.Chan).Elem()))
			}
		}
		return t
	}
	for {
		// ready cases; when several are ready Go picks one pseudo-randomly, so
		// the pick is a decision of the exploration
		var ready []int
		for i, s := range states {
			if s.ch == nil {
				continue
			}
			if len(s.ch.Buf) > 0 || s.ch.Closed || (e.tickReady(s.ch)) {
				ready = append(ready, i)
			}
		}
		if len(ready) > 0 {
			k := 0
			if len(ready) > 1 {
				k = e.choose(len(ready), func(int) *Term { return e.st.True }, false)
				e.recordChoice("select", ready[k])
			}
			i := ready[k]
			s := states[i]
			if len(s.ch.Buf) > 0 {
				v := s.ch.Buf[0]
				s.ch.Buf = s.ch.Buf[1:]
				t := mk(i, true).(Tuple)
				t[2+i] = v
				return t
			}
			if s.ch.Closed {
				return mk(i, false)
			}
			e.ticks--
			return mk(i, true)
		}
		if !in.Blocking {
			return mk(-1, false)
		}
		var chans []*Chan
		for _, s := range states {
			chans = append(chans, s.ch)
		}
		if !e.blockOnSelect(chans) {
			panic(unsupported("blocking select with no ready case"))
		}
	}
}

func (e *Engine) chanSend(ch *Chan, v Value) {
	if ch == nil {
		panic(unsupported("send on nil channel"))
	}
	if ch.Closed {
		panic(&goPanic{runtime: "send on closed channel"})
	}
	if len(ch.Buf) < ch.Cap {
		ch.Buf = append(ch.Buf, copyVal(v))
		return
	}
	panic(unsupported("blocking channel send"))
}

func (e *Engine) chanRecv(ch *Chan, t types.Type, commaOk bool) (Value, bool) {
	if ch == nil {
		panic(unsupported("receive from nil channel"))
	}
	for {
		if len(ch.Buf) > 0 {
			v := ch.Buf[0]
			ch.Buf = ch.Buf[1:]
			return v, true
		}
		if e.tickReady(ch) {
			e.ticks--
			zt := t
			if commaOk {
				zt = t.(*types.Tuple).At(0).Type()
			}
			return e.zero(zt), true
		}
		if ch.Closed {
			var zt types.Type
			if commaOk {
				zt = t.(*types.Tuple).At(0).Type()
			} else {
				zt = t
			}
			return e.zero(zt), false
		}
		if !e.blockOnChan(ch) {
			panic(unsupported("blocking channel receive"))
		}
	}
}

// strAtSym reads s[idx] for a symbolic index without forking per position:
// bounds check (panic path), then an if-then-else chain over the bytes.
func (e *Engine) strAtSym(s Str, idx *Term) *Term {
	n := s.Len()
	st := e.st
	inRange := st.Cmp(OpULt, idx, st.Const(idx.W, uint64(n)))
	if !e.branch(inRange) {
		panic(&goPanic{runtime: fmt.Sprintf("index out of range [symbolic] with length %d", n)})
	}
	bs := e.strBytes(s)
	r := bs[n-1]
	for i := n - 2; i >= 0; i-- {
		r = st.Ite(st.Eq(idx, st.Const(idx.W, uint64(i))), bs[i], r)
	}
	return r
}
