package sym

import (
	"bytes"
	"encoding/json"
	"fmt"
	"go/ast"
	"go/parser"
	"go/printer"
	"go/token"
	"go/types"
	"os"
	"os/exec"
	"path/filepath"
	"sort"
	"strconv"
	"strings"
	"time"

	"golang.org/x/tools/go/ssa"
)

// Native replay: the harness is compiled by the ordinary Go compiler into the
// repository's package (go test -overlay), with
//   - verifrt's native bodies (inputs come from the solver's model),
//   - the repository's time.Now / time.Since calls redirected to verifrt's
//     virtual clock by an AST rewrite of the *current* sources,
// and executed. Only what reproduces natively is reported.

type NativeCase struct {
	Harness string   `json:"harness"` // pkgpath.Func
	Args    []int64  `json:"args"`
	Values  []string `json:"values"` // input values in creation order (decimal uint64)
	// expectations (informational; compared by the caller)
	Tag string `json:"tag"`
}

type NativeOutcome struct {
	Outcome string   `json:"outcome"` // pass | assert:<label> | assume | panic:<v> | race | timeout | error
	Trace   []string `json:"trace"`
}

// ValuesOf renders inputs for the native side.
func ValuesOf(in []Input) []string {
	var out []string
	for _, x := range in {
		if x.Kind == "choice" && (x.Name == "sched" || strings.HasPrefix(x.Name, "sched@") || x.Name == "select" || strings.HasPrefix(x.Name, "select@")) {
			continue // scheduler / select decisions of the executor: not harness inputs (the native scheduler searches schedules itself)
		}
		out = append(out, strconv.FormatUint(x.Val, 10))
	}
	return out
}

// rewriteClock redirects time.Now / time.Since in one source file.
func rewriteClock(fset *token.FileSet, filename string, src []byte) ([]byte, bool, error) {
	f, err := parser.ParseFile(fset, filename, src, parser.ParseComments)
	if err != nil {
		return nil, false, err
	}
	timeName := ""
	for _, im := range f.Imports {
		if im.Path.Value == `"time"` {
			timeName = "time"
			if im.Name != nil {
				timeName = im.Name.Name
			}
		}
	}
	hasTime := !(timeName == "" || timeName == "_" || timeName == ".")
	changed := false
	// sync/atomic calls become verifrt.AtomicX(...): scheduling points of the cooperative replay scheduler
	atomicName := ""
	for _, im := range f.Imports {
		if im.Path.Value == `"sync/atomic"` {
			atomicName = "atomic"
			if im.Name != nil {
				atomicName = im.Name.Name
			}
		}
	}
	atomicLeft := false
	if atomicName != "" && atomicName != "_" && atomicName != "." {
		ast.Inspect(f, func(n ast.Node) bool {
			sel, ok := n.(*ast.SelectorExpr)
			if !ok {
				return true
			}
			id, ok := sel.X.(*ast.Ident)
			if !ok || id.Name != atomicName || id.Obj != nil {
				return true
			}
			for _, pre := range []string{"Add", "Load", "Store", "Swap", "CompareAndSwap"} {
				for _, ty := range []string{"Int32", "Int64", "Uint32", "Uint64", "Uintptr"} {
					if sel.Sel.Name == pre+ty {
						id.Name = "verifrt"
						sel.Sel.Name = "Atomic" + pre + ty
						changed = true
						return true
					}
				}
			}
			atomicLeft = true
			return true
		})
	}
	// mutex acquisitions in statement position become verifrt.Lock(&x) / verifrt.RLock(&x)
	// (scheduling points of the cooperative replay scheduler; plain x.Lock() otherwise)
	ast.Inspect(f, func(n ast.Node) bool {
		es, ok := n.(*ast.ExprStmt)
		if !ok {
			return true
		}
		call, ok := es.X.(*ast.CallExpr)
		if !ok || len(call.Args) != 0 {
			return true
		}
		sel, ok := call.Fun.(*ast.SelectorExpr)
		if !ok || (sel.Sel.Name != "Lock" && sel.Sel.Name != "RLock") {
			return true
		}
		if _, isSel := sel.X.(*ast.SelectorExpr); !isSel {
			return true // only field selectors (x.mu.Lock()), which is how Helios holds its mutexes
		}
		call.Fun = &ast.SelectorExpr{X: ast.NewIdent("verifrt"), Sel: ast.NewIdent(sel.Sel.Name)}
		call.Args = []ast.Expr{&ast.UnaryExpr{Op: token.AND, X: sel.X}}
		changed = true
		return true
	})
	// x.mu.TryLock() / x.mu.TryRLock() anywhere in an expression become verifrt.TryLock(&x.mu) / TryRLock
	ast.Inspect(f, func(n ast.Node) bool {
		call, ok := n.(*ast.CallExpr)
		if !ok || len(call.Args) != 0 {
			return true
		}
		sel, ok := call.Fun.(*ast.SelectorExpr)
		if !ok || (sel.Sel.Name != "TryLock" && sel.Sel.Name != "TryRLock") {
			return true
		}
		if _, isSel := sel.X.(*ast.SelectorExpr); !isSel {
			return true
		}
		call.Fun = &ast.SelectorExpr{X: ast.NewIdent("verifrt"), Sel: ast.NewIdent(sel.Sel.Name)}
		call.Args = []ast.Expr{&ast.UnaryExpr{Op: token.AND, X: sel.X}}
		changed = true
		return true
	})
	// sync.Map-style method calls (x.m.Load / Store / LoadOrStore / ... on a field) are
	// scheduling points under the executor; natively a verifrt.Yield() is inserted
	// before the statement that contains one (purely syntactic: an extra yield before
	// some unrelated Load() method is harmless)
	syncMapMethods := map[string]bool{"Load": true, "Store": true, "LoadOrStore": true, "LoadAndDelete": true, "Delete": true, "Range": true, "Swap": true, "CompareAndSwap": true, "CompareAndDelete": true}
	var hasMapCall func(n ast.Node) bool
	hasMapCall = func(n ast.Node) bool {
		found := false
		ast.Inspect(n, func(m ast.Node) bool {
			if found {
				return false
			}
			switch x := m.(type) {
			case *ast.BlockStmt:
				if m != n {
					return false // nested blocks get their own yields
				}
			case *ast.FuncLit:
				return false
			case *ast.CallExpr:
				if sel, ok := x.Fun.(*ast.SelectorExpr); ok && syncMapMethods[sel.Sel.Name] {
					if _, isField := sel.X.(*ast.SelectorExpr); isField {
						found = true
						return false
					}
				}
			}
			return true
		})
		return found
	}
	yieldStmt := func() ast.Stmt {
		return &ast.ExprStmt{X: &ast.CallExpr{Fun: &ast.SelectorExpr{X: ast.NewIdent("verifrt"), Sel: ast.NewIdent("Yield")}}}
	}
	withYields := func(list []ast.Stmt) []ast.Stmt {
		var out []ast.Stmt
		for _, st := range list {
			need := false
			switch x := st.(type) {
			case *ast.IfStmt:
				// only the init statement and the condition belong to this statement; the bodies are nested blocks
				need = hasMapCallExpr(x.Cond, syncMapMethods) || (x.Init != nil && hasMapCall(x.Init))
			case *ast.BlockStmt, *ast.ForStmt, *ast.RangeStmt, *ast.SwitchStmt, *ast.TypeSwitchStmt, *ast.SelectStmt, *ast.LabeledStmt:
			default:
				need = hasMapCall(st)
			}
			if need {
				out = append(out, yieldStmt())
				changed = true
			}
			out = append(out, st)
		}
		return out
	}
	ast.Inspect(f, func(n ast.Node) bool {
		switch x := n.(type) {
		case *ast.BlockStmt:
			x.List = withYields(x.List)
		case *ast.CaseClause:
			x.Body = withYields(x.Body)
		case *ast.CommClause:
			x.Body = withYields(x.Body)
		}
		return true
	})
	ast.Inspect(f, func(n ast.Node) bool {
		sel, ok := n.(*ast.SelectorExpr)
		if !ok {
			return true
		}
		id, ok := sel.X.(*ast.Ident)
		if !ok || !hasTime || id.Name != timeName || id.Obj != nil {
			return true
		}
		if sel.Sel.Name == "Now" || sel.Sel.Name == "Since" {
			id.Name = "verifrt"
			changed = true
		}
		return true
	})
	if !changed {
		return src, false, nil
	}
	// add the import and keep "time" used
	imp := &ast.ImportSpec{Path: &ast.BasicLit{Kind: token.STRING, Value: strconv.Quote(HeliosModule + "/internal/verifrt")}}
	decl := &ast.GenDecl{Tok: token.IMPORT, Specs: []ast.Spec{imp}}
	f.Decls = append([]ast.Decl{decl}, f.Decls...)
	f.Imports = append(f.Imports, imp)
	var buf bytes.Buffer
	if err := printer.Fprint(&buf, fset, f); err != nil {
		return nil, false, err
	}
	if hasTime {
		buf.WriteString("\nvar _ = " + timeName + ".Second\n")
	}
	if atomicName != "" && atomicName != "_" && atomicName != "." && !atomicLeft {
		buf.WriteString("\nvar _ = " + atomicName + ".LoadInt32\n")
	}
	return buf.Bytes(), true, nil
}

// NativeRunner builds the native overlay once per check and runs batches.
type NativeRunner struct {
	P        *Program
	Harness  string // harness dir
	Dir      string // scratch dir (outside /repo and /verif)
	overlay  map[string]string
	prepared bool
	Log      []string
	Verbose  bool
}

func NewNativeRunner(p *Program, harnessDir string) (*NativeRunner, error) {
	dir, err := os.MkdirTemp("", "symgo-native-")
	if err != nil {
		return nil, err
	}
	return &NativeRunner{P: p, Harness: harnessDir, Dir: dir, overlay: map[string]string{}}, nil
}

func (n *NativeRunner) Close() { os.RemoveAll(n.Dir) }

func (n *NativeRunner) put(virtual string, data []byte) error {
	name := fmt.Sprintf("f%04d_%s", len(n.overlay), filepath.Base(virtual))
	real := filepath.Join(n.Dir, name)
	if err := os.WriteFile(real, data, 0o644); err != nil {
		return err
	}
	n.overlay[virtual] = real
	return nil
}

func (n *NativeRunner) prepare() error {
	if n.prepared {
		return nil
	}
	repo := n.P.RepoDir
	// 1. harness files (native variant: *_sym.go excluded, *_native.go included)
	err := filepath.Walk(n.Harness, func(p string, info os.FileInfo, err error) error {
		if err != nil || info.IsDir() || !strings.HasSuffix(p, ".go") {
			return err
		}
		base := filepath.Base(p)
		if strings.HasSuffix(base, "_sym.go") {
			return nil
		}
		rel, _ := filepath.Rel(n.Harness, p)
		if !strings.HasSuffix(base, "_native.go") && filepath.Dir(rel) != filepath.Join("internal", "verifrt") {
			// a harness file that was left out of the symbolic load (it no longer compiles) is left out here too
			if _, ok := n.P.Overlay[filepath.Join(repo, filepath.Dir(rel), "zz_verif_"+base)]; !ok {
				return nil
			}
		}
		data, err := os.ReadFile(p)
		if err != nil {
			return err
		}
		return n.put(filepath.Join(repo, filepath.Dir(rel), "zz_verif_"+base), data)
	})
	if err != nil {
		return err
	}
	// 2. clock rewrite of the repository's current non-test sources
	fset := token.NewFileSet()
	for _, root := range []string{"internal", "cmd"} {
		err := filepath.Walk(filepath.Join(repo, root), func(p string, info os.FileInfo, err error) error {
			if err != nil || info.IsDir() || !strings.HasSuffix(p, ".go") || strings.HasSuffix(p, "_test.go") {
				return err
			}
			src, err := os.ReadFile(p)
			if err != nil {
				return err
			}
			patched := false
			for _, sp := range n.P.Patches {
				if filepath.Join(repo, sp.File) == p && strings.Contains(string(src), sp.Old) {
					src = []byte(strings.Replace(string(src), sp.Old, sp.New, 1))
					patched = true
				}
			}
			out, changed, err := rewriteClock(fset, p, src)
			if err != nil {
				return err
			}
			if changed {
				return n.put(p, out)
			}
			if patched {
				return n.put(p, src)
			}
			return nil
		})
		if err != nil {
			return err
		}
	}
	// 3. per-package dispatch test
	byPkg := map[string][]*ssa.Function{}
	for path, sp := range n.P.ByPath {
		if !n.P.isHelios(path) {
			continue
		}
		for name, m := range sp.Members {
			fn, ok := m.(*ssa.Function)
			if !ok || !strings.HasPrefix(name, "Verif") || !isHarnessFile(n.P.Prog, fn) {
				continue
			}
			if fn.Signature.Results().Len() != 0 {
				continue
			}
			okSig := true
			for i := 0; i < fn.Signature.Params().Len(); i++ {
				if !isIntegerT(fn.Signature.Params().At(i).Type()) {
					okSig = false
				}
			}
			if okSig {
				byPkg[path] = append(byPkg[path], fn)
			}
		}
	}
	for path, fns := range byPkg {
		sort.Slice(fns, func(i, j int) bool { return fns[i].Name() < fns[j].Name() })
		sp := n.P.ByPath[path]
		var b strings.Builder
		fmt.Fprintf(&b, "package %s\n\nimport (\n\t\"encoding/json\"\n\t\"fmt\"\n\t\"os\"\n\t\"testing\"\n\n\t\"%s/internal/verifrt\"\n)\n\n", sp.Pkg.Name(), HeliosModule)
		b.WriteString("var verifHarnessTable = map[string]func(a []int64){\n")
		for _, fn := range fns {
			var args []string
			for i := 0; i < fn.Signature.Params().Len(); i++ {
				t := fn.Signature.Params().At(i).Type()
				args = append(args, fmt.Sprintf("%s(a[%d])", types.TypeString(t, func(*types.Package) string { return "" }), i))
			}
			fmt.Fprintf(&b, "\t%q: func(a []int64) { %s(%s) },\n", fn.Name(), fn.Name(), strings.Join(args, ", "))
		}
		b.WriteString("}\n\n")
		b.WriteString(`type verifCase struct {
	Harness string   ` + "`json:\"harness\"`" + `
	Args    []int64  ` + "`json:\"args\"`" + `
	Values  []string ` + "`json:\"values\"`" + `
}

func TestVerifReplay(t *testing.T) {
	data, err := os.ReadFile(os.Getenv("VERIF_CASES"))
	if err != nil {
		t.Fatal(err)
	}
	var cases []verifCase
	if err := json.Unmarshal(data, &cases); err != nil {
		t.Fatal(err)
	}
	for i, c := range cases {
		f := verifHarnessTable[c.Harness]
		if f == nil {
			fmt.Printf("VERIF-OUTCOME %d error:unknown harness %s\n", i, c.Harness)
			continue
		}
		vals := make([]uint64, len(c.Values))
		for j, s := range c.Values {
			fmt.Sscan(s, &vals[j])
		}
		for len(c.Args) < 8 {
			c.Args = append(c.Args, 0)
		}
		attempts := 1
		if os.Getenv("VERIF_SCHED") != "" {
			verifrt.Scheduled = true
			fmt.Sscan(os.Getenv("VERIF_SCHED"), &attempts)
		}
		freeAttempts := 0
		if os.Getenv("VERIF_FREE_ATTEMPTS") != "" {
			// data-race replays: real goroutines, many attempts, the race detector is the oracle
			fmt.Sscan(os.Getenv("VERIF_FREE_ATTEMPTS"), &freeAttempts)
			for a := 0; a < freeAttempts; a++ {
				verifrt.LoadValues(vals)
				verifrt.Run(func() { f(c.Args) })
			}
		}
		out := ""
		for a := 0; a < attempts; a++ {
			verifrt.LoadValues(vals)
			if verifrt.Scheduled {
				verifrt.SeedSchedule(uint64(a) + 1)
			}
			out = verifrt.Run(func() { f(c.Args) })
			if out != "pass" && out != "assume" {
				fmt.Printf("VERIF-ATTEMPT %d of %d\n", a+1, attempts)
				break
			}
		}
		tr, _ := json.Marshal(verifrt.Trace)
		fmt.Printf("VERIF-OUTCOME %d %s\n", i, out)
		fmt.Printf("VERIF-TRACE %d %s\n", i, tr)
	}
}
`)
		dir := n.pkgDir(path)
		if err := n.put(filepath.Join(dir, "zz_verif_replay_test.go"), []byte(b.String())); err != nil {
			return err
		}
	}
	ov := struct{ Replace map[string]string }{n.overlay}
	data, _ := json.MarshalIndent(ov, "", " ")
	if err := os.WriteFile(filepath.Join(n.Dir, "overlay.json"), data, 0o644); err != nil {
		return err
	}
	n.prepared = true
	return nil
}

func (n *NativeRunner) pkgDir(path string) string {
	rel := strings.TrimPrefix(strings.TrimPrefix(path, n.P.Module), "/")
	return filepath.Join(n.P.RepoDir, rel)
}

// Run executes the cases (all of one package) natively.
func (n *NativeRunner) Run(pkgPath string, cases []NativeCase, race bool, timeout time.Duration) ([]NativeOutcome, error) {
	return n.RunSched(pkgPath, cases, race, timeout, 0)
}

// RunSched: schedAttempts > 0 runs the cases under verifrt's cooperative
// scheduler, trying that many seeded schedules per case.
func (n *NativeRunner) RunSched(pkgPath string, cases []NativeCase, race bool, timeout time.Duration, schedAttempts int) ([]NativeOutcome, error) {
	if err := n.prepare(); err != nil {
		return nil, err
	}
	type vc struct {
		Harness string   `json:"harness"`
		Args    []int64  `json:"args"`
		Values  []string `json:"values"`
	}
	var vcs []vc
	for _, c := range cases {
		name := c.Harness[strings.LastIndex(c.Harness, ".")+1:]
		vcs = append(vcs, vc{name, c.Args, c.Values})
	}
	data, _ := json.Marshal(vcs)
	cf := filepath.Join(n.Dir, fmt.Sprintf("cases-%d.json", time.Now().UnixNano()))
	if err := os.WriteFile(cf, data, 0o644); err != nil {
		return nil, err
	}
	args := []string{"test", "-v", "-vet=off", "-count=1", "-overlay", filepath.Join(n.Dir, "overlay.json"), "-run", "^TestVerifReplay$", "-timeout", fmt.Sprintf("%ds", int(timeout.Seconds()))}
	if race {
		args = append(args, "-race")
	}
	args = append(args, "./"+strings.TrimPrefix(strings.TrimPrefix(pkgPath, n.P.Module), "/"))
	cmd := exec.Command("go", args...)
	cmd.Dir = n.P.RepoDir
	cmd.Env = append(os.Environ(), "GOFLAGS=-mod=mod", "GOPROXY=off", "GOSUMDB=off", "GOTOOLCHAIN=local", "VERIF_CASES="+cf)
	if schedAttempts > 0 {
		cmd.Env = append(cmd.Env, fmt.Sprintf("VERIF_SCHED=%d", schedAttempts))
	}
	if race {
		cmd.Env = append(cmd.Env, "VERIF_FREE_ATTEMPTS=400")
	}
	out, err := cmd.CombinedOutput()
	txt := string(out)
	if n.Verbose {
		fmt.Println(txt)
	}
	res := make([]NativeOutcome, len(cases))
	for i := range res {
		res[i].Outcome = "error:no output"
	}
	for _, line := range strings.Split(txt, "\n") {
		if strings.HasPrefix(line, "VERIF-OUTCOME ") {
			f := strings.SplitN(line, " ", 3)
			if i, e := strconv.Atoi(f[1]); e == nil && i < len(res) && len(f) == 3 {
				res[i].Outcome = f[2]
			}
		}
		if strings.HasPrefix(line, "VERIF-TRACE ") {
			f := strings.SplitN(line, " ", 3)
			if i, e := strconv.Atoi(f[1]); e == nil && i < len(res) && len(f) == 3 {
				json.Unmarshal([]byte(f[2]), &res[i].Trace)
			}
		}
	}
	if err == nil && !strings.Contains(txt, "VERIF-OUTCOME") {
		err = fmt.Errorf("no outcome lines")
	}
	if err != nil {
		tail := txt
		if len(tail) > 3000 {
			tail = tail[len(tail)-3000:]
		}
		n.Log = append(n.Log, "go test "+pkgPath+": "+err.Error()+"\n"+tail)
		if strings.Contains(txt, "WARNING: DATA RACE") {
			for i := range res {
				if strings.HasPrefix(res[i].Outcome, "error:no output") || res[i].Outcome == "pass" {
					res[i].Outcome = "race"
				}
			}
		}
		if strings.Contains(txt, "panic: test timed out") || strings.Contains(txt, "fatal error: all goroutines are asleep") {
			for i := range res {
				if strings.HasPrefix(res[i].Outcome, "error:no output") {
					res[i].Outcome = "timeout"
				}
			}
		}
		if !strings.Contains(txt, "VERIF-OUTCOME") && !strings.Contains(txt, "DATA RACE") && !strings.Contains(txt, "timed out") && !strings.Contains(txt, "asleep") {
			return res, fmt.Errorf("native build/run failed: %s", tail)
		}
	}
	return res, nil
}

// hasMapCallExpr reports whether an expression contains a sync.Map-style method call on a field.
func hasMapCallExpr(e ast.Expr, methods map[string]bool) bool {
	if e == nil {
		return false
	}
	found := false
	ast.Inspect(e, func(m ast.Node) bool {
		if found {
			return false
		}
		switch x := m.(type) {
		case *ast.FuncLit:
			return false
		case *ast.CallExpr:
			if sel, ok := x.Fun.(*ast.SelectorExpr); ok && methods[sel.Sel.Name] {
				if _, isField := sel.X.(*ast.SelectorExpr); isField {
					found = true
					return false
				}
			}
		}
		return true
	})
	return found
}
