package sym

import (
	"fmt"
	"go/constant"
	"go/token"
	"go/types"
	"strings"

	"golang.org/x/tools/go/ssa"
)

type deferred struct {
	fn    Value
	args  []Value
	instr *ssa.Defer
}

type frame struct {
	e         *Engine
	fn        *ssa.Function
	caller    *frame
	env       map[ssa.Value]Value
	block     *ssa.BasicBlock
	prev      *ssa.BasicBlock
	defers    []*deferred
	result    Value
	panicking bool
	panicVal  *goPanic
	visits    map[*ssa.BasicBlock]int
	done      bool
	th        *thread
}

const maxDepth = 400

func (e *Engine) runMain(fn *ssa.Function, args []Value) {
	e.runThreaded(func() {
		e.initPackages()
		e.callFunction(nil, fn, args, nil)
	})
}

// callValue calls a function value.
func (e *Engine) callValue(caller *frame, fv Value, args []Value) Value {
	switch f := fv.(type) {
	case *ssa.Function:
		return e.callFunction(caller, f, args, nil)
	case *Closure:
		return e.callFunction(caller, f.Fn, args, f.Env)
	case *ssa.Builtin:
		return e.callBuiltin(caller, f, args, nil)
	case *NativeFn:
		return f.F(e, args)
	case FuncNil, nil:
		panic(&goPanic{runtime: "invalid memory address or nil pointer dereference (nil func call)"})
	}
	panic(unsupported(fmt.Sprintf("call of %T", fv)))
}

func fnKey(fn *ssa.Function) string {
	s := fn.String()
	// instantiated generics: strip the type argument list so one intrinsic serves all
	if i := strings.Index(s, "["); i >= 0 && fn.Origin() != nil {
		s = fn.Origin().String()
	}
	return s
}

// callFunction calls fn, consulting stubs and intrinsics first.
func (e *Engine) callFunction(caller *frame, fn *ssa.Function, args []Value, env []Value) Value {
	key := fnKey(fn)
	if st, ok := e.stubs[key]; ok && st != fn {
		e.res.Intrinsics["stub:"+key]++
		return e.callFunction(caller, st, args, nil)
	}
	if in, ok := intrinsics[key]; ok {
		e.res.Intrinsics[key]++
		return in(e, caller, fn, args)
	}
	if strings.HasPrefix(key, "(*sync/atomic.Pointer[") {
		// sync/atomic.Pointer[T]: the pointer lives in a side table keyed by the receiver (an atomic cell)
		if r, ok := e.atomicPointer(fn, key, args); ok {
			e.res.Intrinsics[key]++
			return r
		}
	}
	if pk := fn.Package(); pk != nil {
		if in, ok := pkgIntrinsics[pk.Pkg.Path()]; ok {
			e.res.Intrinsics[pk.Pkg.Path()+".*"]++
			return in(e, caller, fn, args)
		}
	} else if fn.Origin() != nil && fn.Origin().Package() != nil {
		if in, ok := pkgIntrinsics[fn.Origin().Package().Pkg.Path()]; ok {
			return in(e, caller, fn, args)
		}
	}
	if skipInit(e, fn) {
		return nil
	}
	if fn.Blocks == nil {
		// wrappers and bound-method closures have synthetic bodies built on demand; anything else is external
		panic(unsupported("call of function without body: " + key))
	}
	if e.depth > maxDepth {
		panic(unsupported("call depth exceeded in " + key))
	}
	e.res.Funcs[key] = true
	fr := &frame{e: e, fn: fn, caller: caller, env: make(map[ssa.Value]Value, 16), visits: map[*ssa.BasicBlock]int{}}
	if caller != nil {
		fr.th = caller.th
	} else if e.th != nil {
		fr.th = e.th.cur
	}
	for i, p := range fn.Params {
		fr.env[p] = args[i]
	}
	for i, fv := range fn.FreeVars {
		fr.env[fv] = env[i]
	}
	fr.block = fn.Blocks[0]
	e.depth++
	defer func() { e.depth-- }()
	for fr.block != nil {
		fr.run()
	}
	return fr.result
}

// run executes blocks until return or panic; mirrors x/tools/go/ssa/interp.
func (fr *frame) run() {
	defer func() {
		if fr.block == nil {
			return // normal return
		}
		r := recover()
		gp, ok := r.(*goPanic)
		if !ok {
			// engine abort: propagate untouched, no deferred calls
			fr.block = nil
			panic(r)
		}
		fr.panicking = true
		fr.panicVal = gp
		fr.runDefers()
		// recovered
		fr.block = fr.fn.Recover
		if fr.block == nil {
			// no named results: return zero values
			fr.result = fr.e.zeroResults(fr.fn)
		}
	}()
	e := fr.e
	for {
		b := fr.block
		fr.visits[b]++
		if fr.visits[b] > e.job.LoopBound+1 {
			panic(&abortSignal{kind: abortUnwind, msg: fmt.Sprintf("%s block %d", fr.fn.String(), b.Index)})
		}
		e.res.Blocks++
		if e.res.Blocks&0xfff == 0 {
			e.checkBudget()
		}
		var next *ssa.BasicBlock
		for _, instr := range b.Instrs {
			e.res.Instrs++
			switch in := instr.(type) {
			case *ssa.If:
				c := fr.get(in.Cond).(*Term)
				if e.branch(c) {
					next = b.Succs[0]
				} else {
					next = b.Succs[1]
				}
			case *ssa.Jump:
				next = b.Succs[0]
			case *ssa.Return:
				switch len(in.Results) {
				case 0:
				case 1:
					fr.result = fr.get(in.Results[0])
				default:
					t := make(Tuple, len(in.Results))
					for i, r := range in.Results {
						t[i] = fr.get(r)
					}
					fr.result = t
				}
				fr.block = nil
				return
			case *ssa.Panic:
				panic(&goPanic{val: fr.get(in.X)})
			case *ssa.RunDefers:
				fr.runDefers()
			default:
				fr.exec(instr)
			}
		}
		if next == nil {
			panic(unsupported("block without terminator in " + fr.fn.String()))
		}
		fr.prev = b
		fr.block = next
	}
}

func (e *Engine) zeroResults(fn *ssa.Function) Value {
	res := fn.Signature.Results()
	switch res.Len() {
	case 0:
		return nil
	case 1:
		return e.zero(res.At(0).Type())
	}
	return e.zero(res)
}

func (fr *frame) runDefers() {
	for len(fr.defers) > 0 {
		d := fr.defers[len(fr.defers)-1]
		fr.defers = fr.defers[:len(fr.defers)-1]
		fr.runDefer(d)
	}
	if fr.panicking {
		panic(fr.panicVal)
	}
}

func (fr *frame) runDefer(d *deferred) {
	ok := false
	defer func() {
		if !ok {
			r := recover()
			if gp, isGo := r.(*goPanic); isGo {
				fr.panicking = true
				fr.panicVal = gp
			} else {
				panic(r)
			}
		}
	}()
	fr.e.callValue(fr, d.fn, d.args)
	ok = true
}

func (fr *frame) get(v ssa.Value) Value {
	switch x := v.(type) {
	case *ssa.Const:
		return fr.e.constValue(x)
	case *ssa.Global:
		return fr.e.globalAddr(x)
	case *ssa.Function:
		return x
	case *ssa.Builtin:
		return x
	}
	if r, ok := fr.env[v]; ok {
		return r
	}
	panic(unsupported(fmt.Sprintf("get: no value for %s (%T) in %s", v.Name(), v, fr.fn)))
}

func (e *Engine) constValue(c *ssa.Const) Value {
	t := c.Type()
	if c.Value == nil {
		return e.zero(t)
	}
	switch u := t.Underlying().(type) {
	case *types.Basic:
		switch {
		case u.Info()&types.IsBoolean != 0:
			return e.st.Bool(constant.BoolVal(c.Value))
		case u.Info()&types.IsInteger != 0:
			w := widthOfBasic(u)
			if i, ok := constant.Int64Val(constant.ToInt(c.Value)); ok {
				return e.st.Const(w, uint64(i))
			}
			ui, _ := constant.Uint64Val(constant.ToInt(c.Value))
			return e.st.Const(w, ui)
		case u.Info()&types.IsString != 0:
			return Str{S: constant.StringVal(c.Value)}
		case u.Info()&types.IsFloat != 0:
			f, _ := constant.Float64Val(c.Value)
			return Float{F: f}
		}
	}
	panic(unsupported("constant of type " + t.String()))
}

func (e *Engine) globalAddr(g *ssa.Global) *Value {
	if p, ok := e.globals[g]; ok {
		return p
	}
	elem := g.Type().(*types.Pointer).Elem()
	v := e.zero(elem)
	// stdlib package-level error variables: distinct opaque objects
	if g.Pkg != nil && !e.P.isHelios(g.Pkg.Pkg.Path()) {
		if types.Identical(elem, errorType) {
			v = e.newError("<" + g.Pkg.Pkg.Path() + "." + g.Name() + ">")
		}
	}
	p := new(Value)
	*p = v
	e.globals[g] = p
	return p
}

var errorType = types.Universe.Lookup("error").Type()

// load reads through a pointer (deep copy: aggregates have value semantics).
func (e *Engine) load(p *Value) Value {
	if p == nil {
		panic(&goPanic{runtime: "invalid memory address or nil pointer dereference"})
	}
	return e.loadRec(p)
}

func (e *Engine) loadRec(p *Value) Value {
	switch x := (*p).(type) {
	case Struct:
		c := make(Struct, len(x))
		for i := range x {
			c[i] = e.loadRec(&x[i])
		}
		return c
	case Array:
		c := make(Array, len(x))
		for i := range x {
			c[i] = e.loadRec(&x[i])
		}
		return c
	}
	e.access(p, false)
	return *p
}

// store writes through a pointer. Aggregates are copied element-wise in
// place so that addresses of fields/elements taken earlier stay valid.
func (e *Engine) store(p *Value, v Value) {
	if p == nil {
		panic(&goPanic{runtime: "invalid memory address or nil pointer dereference"})
	}
	e.storeRec(p, v)
}

func (e *Engine) storeRec(p *Value, v Value) {
	switch dst := (*p).(type) {
	case Struct:
		if src, ok := v.(Struct); ok && len(src) == len(dst) {
			for i := range dst {
				e.storeRec(&dst[i], src[i])
			}
			return
		}
	case Array:
		if src, ok := v.(Array); ok && len(src) == len(dst) {
			for i := range dst {
				e.storeRec(&dst[i], src[i])
			}
			return
		}
	}
	e.access(p, true)
	*p = copyVal(v)
}

func (fr *frame) exec(instr ssa.Instruction) {
	e := fr.e
	switch in := instr.(type) {
	case *ssa.DebugRef:
	case *ssa.Alloc:
		p := new(Value)
		*p = e.zero(in.Type().(*types.Pointer).Elem())
		fr.env[in] = p
	case *ssa.UnOp:
		fr.env[in] = fr.unop(in)
	case *ssa.BinOp:
		fr.env[in] = e.binop(in.Op, in.X.Type(), fr.get(in.X), fr.get(in.Y))
	case *ssa.Call:
		fr.env[in] = fr.call(&in.Call)
	case *ssa.ChangeInterface:
		fr.env[in] = fr.get(in.X)
	case *ssa.ChangeType:
		fr.env[in] = fr.get(in.X)
	case *ssa.Convert:
		fr.env[in] = e.convert(in.X.Type(), in.Type(), fr.get(in.X))
	case *ssa.MultiConvert:
		fr.env[in] = e.convert(in.X.Type(), in.Type(), fr.get(in.X))
	case *ssa.Extract:
		fr.env[in] = fr.get(in.Tuple).(Tuple)[in.Index]
	case *ssa.Field:
		fr.env[in] = copyVal(fr.get(in.X).(Struct)[in.Field])
	case *ssa.FieldAddr:
		p := fr.get(in.X).(*Value)
		if p == nil {
			panic(&goPanic{runtime: "invalid memory address or nil pointer dereference"})
		}
		s, ok := (*p).(Struct)
		if !ok {
			panic(unsupported(fmt.Sprintf("FieldAddr on %T in %s", *p, fr.fn)))
		}
		q := &s[in.Field]
		if st, ok := in.X.Type().Underlying().(*types.Pointer).Elem().Underlying().(*types.Struct); ok {
			if e.job.Threads || isSyncType(st.Field(in.Field).Type()) {
				e.cellName[q] = typeName(in.X.Type().Underlying().(*types.Pointer).Elem()) + "." + st.Field(in.Field).Name()
			}
		}
		fr.env[in] = q
	case *ssa.Index:
		fr.env[in] = fr.index(in)
	case *ssa.IndexAddr:
		fr.env[in] = fr.indexAddr(in)
	case *ssa.Lookup:
		fr.env[in] = fr.lookup(in)
	case *ssa.MakeClosure:
		env := make([]Value, len(in.Bindings))
		for i, b := range in.Bindings {
			env[i] = fr.get(b)
		}
		fr.env[in] = &Closure{Fn: in.Fn.(*ssa.Function), Env: env}
	case *ssa.MakeInterface:
		fr.env[in] = Iface{T: in.X.Type(), V: fr.get(in.X)}
	case *ssa.MakeMap:
		mt := in.Type().Underlying().(*types.Map)
		fr.env[in] = &Map{KT: mt.Key(), VT: mt.Elem()}
	case *ssa.MakeSlice:
		n := e.concretize(e.asInt(fr.get(in.Len)), 0, 1024, "make slice len")
		var c int64
		if ct := e.asInt(fr.get(in.Cap)); ct.IsConst() {
			c = ct.SVal()
		} else {
			// a symbolic capacity is not concretised: capacity is observable only through cap()
			// and through aliasing of appends within capacity, neither of which Helios relies on
			e.res.Intrinsics["make-slice-with-symbolic-capacity"]++
			c = n
		}
		if c < n {
			c = n
		}
		if c > 4096 {
			c = 4096 // capacity is unobservable except through cap(); keep the backing store small
			if c < n {
				c = n
			}
		}
		et := in.Type().Underlying().(*types.Slice).Elem()
		v := make([]Value, n, c)
		for i := range v {
			v[i] = e.zero(et)
		}
		fr.env[in] = Slice{V: v}
	case *ssa.MakeChan:
		c := e.concretize(e.asInt(fr.get(in.Size)), 0, 64, "make chan size")
		fr.env[in] = &Chan{Cap: int(c)}
	case *ssa.MapUpdate:
		m := fr.get(in.Map).(*Map)
		if m == nil {
			panic(&goPanic{runtime: "assignment to entry in nil map"})
		}
		e.mapSet(m, fr.get(in.Key), fr.get(in.Value))
	case *ssa.Next:
		fr.env[in] = fr.next(in)
	case *ssa.Range:
		switch x := fr.get(in.X).(type) {
		case *Map:
			// iteration order: insertion order (recorded assumption); snapshot keys
			snap := &Map{}
			e.mapAccess(x, false)
			if x != nil {
				snap.Keys = append([]Value{}, x.Keys...)
				snap.Vals = append([]Value{}, x.Vals...)
			}
			fr.env[in] = &rangeIter{m: snap, live: x}
		case Str:
			fr.env[in] = &rangeIter{s: x, isS: true}
		default:
			panic(unsupported(fmt.Sprintf("range over %T", x)))
		}
	case *ssa.Phi:
		for i, pred := range in.Block().Preds {
			if pred == fr.prev {
				fr.env[in] = fr.get(in.Edges[i])
				return
			}
		}
		panic(unsupported("phi: predecessor not found"))
	case *ssa.Slice:
		fr.env[in] = fr.slice(in)
	case *ssa.SliceToArrayPointer:
		panic(unsupported("SliceToArrayPointer"))
	case *ssa.Store:
		e.curSite = fr.fn.String()
		e.store(fr.get(in.Addr).(*Value), fr.get(in.Val))
	case *ssa.TypeAssert:
		fr.env[in] = fr.typeAssert(in)
	case *ssa.Defer:
		fn, args := fr.prepareCall(&in.Call)
		fr.defers = append(fr.defers, &deferred{fn: fn, args: args, instr: in})
	case *ssa.Go:
		fn, args := fr.prepareCall(&in.Call)
		e.spawn(fr, fn, args)
	case *ssa.Send:
		ch := fr.get(in.Chan).(*Chan)
		e.chanSend(ch, fr.get(in.X))
	case *ssa.Select:
		fr.env[in] = fr.selectInstr(in)
	default:
		panic(unsupported(fmt.Sprintf("instruction %T in %s", instr, fr.fn)))
	}
}

func isSyncType(t types.Type) bool {
	n, ok := t.(*types.Named)
	return ok && n.Obj().Pkg() != nil && n.Obj().Pkg().Path() == "sync"
}

func typeName(t types.Type) string {
	if n, ok := t.(*types.Named); ok {
		return n.Obj().Name()
	}
	return t.String()
}

func (e *Engine) asInt(v Value) *Term {
	t, ok := v.(*Term)
	if !ok {
		panic(unsupported(fmt.Sprintf("expected integer, got %T", v)))
	}
	return t
}

func (fr *frame) unop(in *ssa.UnOp) Value {
	e := fr.e
	x := fr.get(in.X)
	switch in.Op {
	case token.MUL: // load
		e.curSite = fr.fn.String()
		return e.load(x.(*Value))
	case token.NOT:
		return e.st.Not(x.(*Term))
	case token.SUB:
		switch v := x.(type) {
		case *Term:
			return e.st.Neg(v)
		case Float:
			if v.Opaque {
				return v
			}
			return Float{F: -v.F}
		}
	case token.XOR:
		return e.st.BNot(x.(*Term))
	case token.ARROW:
		ch := x.(*Chan)
		v, ok := e.chanRecv(ch, in.Type(), in.CommaOk)
		if in.CommaOk {
			return Tuple{v, e.st.Bool(ok)}
		}
		return v
	}
	panic(unsupported("unop " + in.Op.String()))
}

func (fr *frame) prepareCall(c *ssa.CallCommon) (Value, []Value) {
	e := fr.e
	var args []Value
	var fn Value
	if c.IsInvoke() {
		recv, ok := fr.get(c.Value).(Iface)
		if !ok {
			panic(unsupported(fmt.Sprintf("invoke on %T", fr.get(c.Value))))
		}
		if recv.T == nil {
			panic(&goPanic{runtime: "invalid memory address or nil pointer dereference (method call on nil interface)"})
		}
		m := e.P.Prog.LookupMethod(recv.T, c.Method.Pkg(), c.Method.Name())
		if m == nil {
			panic(unsupported(fmt.Sprintf("method %s not found on %s", c.Method.Name(), recv.T)))
		}
		fn = m
		args = append(args, recv.V)
	} else {
		fn = fr.get(c.Value)
	}
	for _, a := range c.Args {
		args = append(args, fr.get(a))
	}
	return fn, args
}

func (fr *frame) call(c *ssa.CallCommon) Value {
	fn, args := fr.prepareCall(c)
	if b, ok := fn.(*ssa.Builtin); ok {
		return fr.e.callBuiltin(fr, b, args, c)
	}
	return fr.e.callValue(fr, fn, args)
}

func (fr *frame) typeAssert(in *ssa.TypeAssert) Value {
	e := fr.e
	x := fr.get(in.X).(Iface)
	ok := false
	var res Value
	if x.T != nil {
		if types.IsInterface(in.AssertedType) {
			it := in.AssertedType.Underlying().(*types.Interface)
			if e.implements(x.T, it) {
				ok = true
				res = x
			}
		} else if types.Identical(x.T, in.AssertedType) {
			ok = true
			res = x.V
		}
	}
	if in.CommaOk {
		if !ok {
			res = e.zero(in.AssertedType)
		}
		return Tuple{res, e.st.Bool(ok)}
	}
	if !ok {
		panic(&goPanic{runtime: fmt.Sprintf("interface conversion: %v is not %s", x.T, in.AssertedType)})
	}
	return res
}

func (e *Engine) implements(t types.Type, it *types.Interface) bool {
	ms := e.P.Prog.MethodSets.MethodSet(t)
	for i := 0; i < it.NumMethods(); i++ {
		m := it.Method(i)
		sel := ms.Lookup(m.Pkg(), m.Name())
		if sel == nil {
			return false
		}
		if !types.Identical(sel.Type(), m.Type()) {
			return false
		}
	}
	return true
}

