package sym

import (
	"os"
	"encoding/json"
	"fmt"
	"go/types"
	"reflect"
	"math"
	"net"
	"net/textproto"
	"net/url"
	"strconv"
	"strings"

	"golang.org/x/tools/go/ssa"
)

type intrinsic func(e *Engine, fr *frame, fn *ssa.Function, args []Value) Value

var intrinsics map[string]intrinsic
var pkgIntrinsics map[string]intrinsic

const vrt = HeliosModule + "/internal/verifrt."
const hlog = HeliosModule + "/internal/logging."

func cstr(v Value) string {
	s, ok := v.(Str)
	if !ok || s.IsSym() {
		panic(unsupported("expected concrete string argument"))
	}
	return s.S
}

func (e *Engine) cint(v Value, what string) int64 {
	t := e.asInt(v)
	if !t.IsConst() {
		panic(unsupported("expected concrete integer: " + what))
	}
	return t.SVal()
}

// noop returns the zero value(s) of the function's results.
func noop(e *Engine, fr *frame, fn *ssa.Function, args []Value) Value {
	return e.zeroResults(fn)
}

// chain is a no-op that returns its receiver when the result type equals the
// receiver type (fluent logging APIs), else zero values.
func chain(e *Engine, fr *frame, fn *ssa.Function, args []Value) Value {
	sig := fn.Signature
	if sig.Recv() != nil && sig.Results().Len() == 1 && len(args) > 0 &&
		types.Identical(sig.Recv().Type(), sig.Results().At(0).Type()) {
		return args[0]
	}
	return e.zeroResults(fn)
}

func (e *Engine) mkTime(ns *Term) Value {
	return Struct{e.st.Const(64, 0), ns, (*Value)(nil)}
}

func (e *Engine) timeNs(v Value) *Term {
	s, ok := v.(Struct)
	if !ok || len(s) != 3 {
		panic(unsupported(fmt.Sprintf("time.Time value of unexpected shape %T", v)))
	}
	return s[1].(*Term)
}

func (e *Engine) newError(msg string) Value {
	return e.newErrorIface(msg)
}

var errStringType types.Type

func (e *Engine) newErrorIface(msg string) Iface {
	if errStringType == nil {
		pkg := e.P.ByPath["errors"]
		errStringType = types.NewPointer(pkg.Type("errorString").Type())
	}
	p := new(Value)
	*p = Struct{Str{S: msg}}
	return Iface{T: errStringType, V: p}
}

func (e *Engine) boolInput(t *Term) *Term { return e.st.Eq(t, e.st.Const(1, 1)) }

func init() {
	intrinsics = map[string]intrinsic{}
	pkgIntrinsics = map[string]intrinsic{}
	registerBridge()

	// ------------------------------------------------------------ verifrt
	mkInt := func(kind string, w int) intrinsic {
		return func(e *Engine, fr *frame, fn *ssa.Function, args []Value) Value {
			return e.newInput(cstr(args[0]), kind, w)
		}
	}
	intrinsics[vrt+"Int"] = mkInt("int", 64)
	intrinsics[vrt+"Int64"] = mkInt("int", 64)
	intrinsics[vrt+"Uint64"] = mkInt("int", 64)
	intrinsics[vrt+"Int32"] = mkInt("int", 32)
	intrinsics[vrt+"Uint32"] = mkInt("int", 32)
	intrinsics[vrt+"Byte"] = mkInt("int", 8)
	intrinsics[vrt+"Bool"] = func(e *Engine, fr *frame, fn *ssa.Function, args []Value) Value {
		t := e.newInput(cstr(args[0]), "bool", 1)
		return e.boolInput(t)
	}
	intrinsics[vrt+"IntRange"] = func(e *Engine, fr *frame, fn *ssa.Function, args []Value) Value {
		t := e.newInput(cstr(args[0]), "int", 64)
		lo, hi := e.asInt(args[1]), e.asInt(args[2])
		if lo.IsConst() && hi.IsConst() && t.Op == OpVar {
			e.ranges[t.Name] = [2]int64{lo.SVal(), hi.SVal()}
		}
		e.assume(e.st.And(e.st.Cmp(OpSLe, lo, t), e.st.Cmp(OpSLe, t, hi)))
		return t
	}
	intrinsics[vrt+"Choice"] = func(e *Engine, fr *frame, fn *ssa.Function, args []Value) Value {
		n := int(e.cint(args[1], "Choice n"))
		var i int
		if e.concreteMode() {
			t := e.newInput(cstr(args[0]), "choice", 64)
			i = int(t.SVal())
			if i < 0 || i >= n {
				panic(&abortSignal{kind: abortInfeasible})
			}
			return e.st.Const(64, uint64(i))
		}
		i = e.choose(n, func(int) *Term { return e.st.True }, false)
		e.recordChoice(cstr(args[0]), i)
		return e.st.Const(64, uint64(i))
	}
	intrinsics[vrt+"String"] = func(e *Engine, fr *frame, fn *ssa.Function, args []Value) Value {
		n := int(e.cint(args[1], "String n"))
		bs := make([]*Term, n)
		for i := range bs {
			bs[i] = e.newInput(cstr(args[0]), "int", 8)
		}
		if n == 0 {
			return Str{}
		}
		return e.normStr(bs)
	}
	intrinsics[vrt+"Assume"] = func(e *Engine, fr *frame, fn *ssa.Function, args []Value) Value {
		e.assume(args[0].(*Term))
		return nil
	}
	intrinsics[vrt+"Assert"] = func(e *Engine, fr *frame, fn *ssa.Function, args []Value) Value {
		e.check(args[0].(*Term), cstr(args[1]), "assert")
		return nil
	}
	intrinsics[vrt+"Known"] = func(e *Engine, fr *frame, fn *ssa.Function, args []Value) Value {
		id := cstr(args[0])
		c := args[1].(*Term)
		if old, ok := e.knownConds[id]; ok {
			c = e.st.Or(old, c)
		}
		e.knownConds[id] = c
		return nil
	}
	intrinsics[vrt+"And"] = func(e *Engine, fr *frame, fn *ssa.Function, args []Value) Value {
		return e.st.And(args[0].(*Term), args[1].(*Term))
	}
	intrinsics[vrt+"Or"] = func(e *Engine, fr *frame, fn *ssa.Function, args []Value) Value {
		return e.st.Or(args[0].(*Term), args[1].(*Term))
	}
	intrinsics[vrt+"Not"] = func(e *Engine, fr *frame, fn *ssa.Function, args []Value) Value {
		return e.st.Not(args[0].(*Term))
	}
	intrinsics[vrt+"Implies"] = func(e *Engine, fr *frame, fn *ssa.Function, args []Value) Value {
		return e.st.Implies(args[0].(*Term), args[1].(*Term))
	}
	intrinsics[vrt+"IteInt"] = func(e *Engine, fr *frame, fn *ssa.Function, args []Value) Value {
		return e.st.Ite(args[0].(*Term), args[1].(*Term), args[2].(*Term))
	}
	intrinsics[vrt+"Now"] = func(e *Engine, fr *frame, fn *ssa.Function, args []Value) Value {
		return e.mkTime(e.clock)
	}
	intrinsics[vrt+"Since"] = func(e *Engine, fr *frame, fn *ssa.Function, args []Value) Value {
		return e.st.Bin(OpSub, e.clock, e.timeNs(args[0]))
	}
	intrinsics[vrt+"StartStopwatch"] = func(e *Engine, fr *frame, fn *ssa.Function, args []Value) Value {
		return Struct{e.mkTime(e.clock)}
	}
	intrinsics[vrt+"Elapsed"] = func(e *Engine, fr *frame, fn *ssa.Function, args []Value) Value {
		return e.st.Bin(OpSub, e.clock, e.timeNs(args[0].(Struct)[0]))
	}
	intrinsics[vrt+"Advance"] = func(e *Engine, fr *frame, fn *ssa.Function, args []Value) Value {
		d := e.asInt(args[0])
		e.assume(e.st.Cmp(OpSLe, e.st.Const(64, 0), d))
		e.clock = e.st.Bin(OpAdd, e.clock, d)
		e.ctxExpire()
		return nil
	}
	intrinsics[vrt+"Observe"] = func(e *Engine, fr *frame, fn *ssa.Function, args []Value) Value {
		o := obsRec{label: cstr(args[0])}
		for _, v := range args[1].(Slice).V {
			o.terms = append(o.terms, v.(*Term))
		}
		e.obs = append(e.obs, o)
		return nil
	}
	intrinsics[vrt+"ObserveBool"] = func(e *Engine, fr *frame, fn *ssa.Function, args []Value) Value {
		e.obs = append(e.obs, obsRec{label: cstr(args[0]), terms: []*Term{args[1].(*Term)}})
		return nil
	}
	intrinsics[vrt+"ObserveStr"] = func(e *Engine, fr *frame, fn *ssa.Function, args []Value) Value {
		s := args[1].(Str)
		e.obs = append(e.obs, obsRec{label: cstr(args[0]), str: &s})
		return nil
	}
	intrinsics[vrt+"Reach"] = func(e *Engine, fr *frame, fn *ssa.Function, args []Value) Value {
		e.res.Reach[cstr(args[0])]++
		return nil
	}
	intrinsics[vrt+"Concrete"] = func(e *Engine, fr *frame, fn *ssa.Function, args []Value) Value {
		lo, hi := e.cint(args[1], "Concrete lo"), e.cint(args[2], "Concrete hi")
		t := e.asInt(args[0])
		if !t.IsConst() {
			e.assume(e.st.And(e.st.Cmp(OpSLe, e.st.Const(64, uint64(lo)), t), e.st.Cmp(OpSLe, t, e.st.Const(64, uint64(hi)))))
		}
		v := e.concretize(t, lo, hi, "verifrt.Concrete")
		return e.st.Const(64, uint64(v))
	}
	intrinsics[vrt+"Go"] = func(e *Engine, fr *frame, fn *ssa.Function, args []Value) Value {
		e.spawn(fr, args[0], nil)
		return nil
	}
	intrinsics[vrt+"Yield"] = func(e *Engine, fr *frame, fn *ssa.Function, args []Value) Value {
		e.yield("verifrt.Yield")
		return nil
	}
	intrinsics[vrt+"Rendezvous"] = func(e *Engine, fr *frame, fn *ssa.Function, args []Value) Value {
		e.yield("verifrt.Rendezvous")
		return nil
	}
	// errors.Is: target comparison along the Unwrap chain (custom Is methods and
	// multi-error Unwrap() []error are not modelled: unsupported when met)
	intrinsics["errors.Is"] = func(e *Engine, fr *frame, fn *ssa.Function, args []Value) Value {
		err, _ := args[0].(Iface)
		target, _ := args[1].(Iface)
		res := e.st.False
		for depth := 0; depth < 16; depth++ {
			if err.T == nil {
				if target.T == nil && depth == 0 {
					return e.st.True
				}
				return res
			}
			eq := e.valueEq(err, target)
			if v, ok := e.syntactic(eq); ok {
				if v {
					return e.st.True
				}
			} else if e.branch(eq) {
				return e.st.True
			}
			if e.P.Prog.MethodSets.MethodSet(err.T).Lookup(nil, "Is") != nil {
				panic(unsupported("errors.Is on a type with its own Is method: " + err.T.String()))
			}
			if e.P.Prog.MethodSets.MethodSet(err.T).Lookup(nil, "Unwrap") == nil {
				return res
			}
			m := e.P.Prog.LookupMethod(err.T, nil, "Unwrap")
			if m.Signature.Results().Len() != 1 {
				panic(unsupported("errors.Is: Unwrap of unexpected shape on " + err.T.String()))
			}
			if _, isSlice := m.Signature.Results().At(0).Type().Underlying().(*types.Slice); isSlice {
				panic(unsupported("errors.Is: Unwrap() []error on " + err.T.String()))
			}
			next, _ := e.callFunction(fr, m, []Value{err.V}, nil).(Iface)
			err = next
		}
		panic(unsupported("errors.Is: Unwrap chain longer than 16"))
	}
	intrinsics[vrt+"DistinctRandomness"] = func(e *Engine, fr *frame, fn *ssa.Function, args []Value) Value {
		e.randStream = true
		return nil
	}
	intrinsics[vrt+"Ticks"] = func(e *Engine, fr *frame, fn *ssa.Function, args []Value) Value {
		e.ticks = int(e.concretize(e.asInt(args[0]), 0, 64, "verifrt.Ticks"))
		e.tickEpoch++
		return nil
	}
	intrinsics[vrt+"WaitFor"] = func(e *Engine, fr *frame, fn *ssa.Function, args []Value) Value {
		p := args[0].(*Value)
		set := func() bool {
			t, ok := (*p).(*Term)
			return ok && t.IsConst() && t.SVal() != 0
		}
		if e.th == nil || !e.job.Threads {
			if !set() {
				panic(unsupported("verifrt.WaitFor outside thread mode on an unset flag"))
			}
			return nil
		}
		e.yield("verifrt.WaitFor")
		e.blockUntil("verifrt.WaitFor", set)
		e.atomicAccess(p, false)
		return nil
	}
	intrinsics[vrt+"Settle"] = func(e *Engine, fr *frame, fn *ssa.Function, args []Value) Value {
		e.settle()
		return nil
	}
	intrinsics[vrt+"WaitAll"] = func(e *Engine, fr *frame, fn *ssa.Function, args []Value) Value {
		e.waitAll()
		return nil
	}

	// ------------------------------------------------------------ time (clock model)
	intrinsics["time.Now"] = func(e *Engine, fr *frame, fn *ssa.Function, args []Value) Value {
		return e.mkTime(e.clock)
	}
	intrinsics["time.Since"] = func(e *Engine, fr *frame, fn *ssa.Function, args []Value) Value {
		return e.st.Bin(OpSub, e.clock, e.timeNs(args[0]))
	}
	intrinsics["time.Until"] = func(e *Engine, fr *frame, fn *ssa.Function, args []Value) Value {
		return e.st.Bin(OpSub, e.timeNs(args[0]), e.clock)
	}
	intrinsics["(time.Time).Add"] = func(e *Engine, fr *frame, fn *ssa.Function, args []Value) Value {
		return e.mkTime(e.st.Bin(OpAdd, e.timeNs(args[0]), e.asInt(args[1])))
	}
	intrinsics["(time.Time).Sub"] = func(e *Engine, fr *frame, fn *ssa.Function, args []Value) Value {
		return e.st.Bin(OpSub, e.timeNs(args[0]), e.timeNs(args[1]))
	}
	intrinsics["(time.Time).After"] = func(e *Engine, fr *frame, fn *ssa.Function, args []Value) Value {
		return e.st.Cmp(OpSLt, e.timeNs(args[1]), e.timeNs(args[0]))
	}
	intrinsics["(time.Time).Before"] = func(e *Engine, fr *frame, fn *ssa.Function, args []Value) Value {
		return e.st.Cmp(OpSLt, e.timeNs(args[0]), e.timeNs(args[1]))
	}
	intrinsics["(time.Time).Equal"] = func(e *Engine, fr *frame, fn *ssa.Function, args []Value) Value {
		return e.st.Eq(e.timeNs(args[0]), e.timeNs(args[1]))
	}
	intrinsics["(time.Time).IsZero"] = func(e *Engine, fr *frame, fn *ssa.Function, args []Value) Value {
		return e.st.Eq(e.timeNs(args[0]), e.st.Const(64, 0))
	}
	intrinsics["(time.Time).UnixNano"] = func(e *Engine, fr *frame, fn *ssa.Function, args []Value) Value {
		return e.timeNs(args[0])
	}
	intrinsics["time.Unix"] = func(e *Engine, fr *frame, fn *ssa.Function, args []Value) Value {
		sec, ns := e.asInt(args[0]), e.asInt(args[1])
		return e.mkTime(e.st.Bin(OpAdd, e.st.Bin(OpMul, sec, e.st.Const(64, 1000000000)), ns))
	}
	// a ticker fires only as often as the harness grants with verifrt.Ticks(k)
	// (default 0: never); when it fires relative to the other threads is a
	// scheduling decision
	intrinsics["time.NewTicker"] = func(e *Engine, fr *frame, fn *ssa.Function, args []Value) Value {
		tt := e.P.ByPath["time"].Type("Ticker").Type()
		p := new(Value)
		z := e.zero(tt).(Struct)
		z[0] = &Chan{Cap: 1, Ticker: true, Epoch: e.tickEpoch} // field C
		*p = z
		return p
	}
	intrinsics["(*time.Ticker).Stop"] = noop
	intrinsics["(*time.Ticker).Reset"] = noop
	opaqueStr := func(e *Engine, fr *frame, fn *ssa.Function, args []Value) Value { return Str{S: "<opaque>"} }
	intrinsics["(time.Time).String"] = opaqueStr
	intrinsics["(time.Time).Format"] = opaqueStr
	intrinsics["(time.Duration).String"] = opaqueStr

	// ------------------------------------------------------------ sync
	intrinsics["(*sync.Mutex).Lock"] = func(e *Engine, fr *frame, fn *ssa.Function, args []Value) Value {
		e.mutexLock(args[0].(*Value), true)
		return nil
	}
	intrinsics["(*sync.Mutex).Unlock"] = func(e *Engine, fr *frame, fn *ssa.Function, args []Value) Value {
		e.mutexUnlock(args[0].(*Value), true)
		return nil
	}
	intrinsics["(*sync.RWMutex).Lock"] = intrinsics["(*sync.Mutex).Lock"]
	intrinsics["(*sync.RWMutex).Unlock"] = intrinsics["(*sync.Mutex).Unlock"]
	intrinsics["(*sync.RWMutex).RLock"] = func(e *Engine, fr *frame, fn *ssa.Function, args []Value) Value {
		e.mutexLock(args[0].(*Value), false)
		return nil
	}
	intrinsics["(*sync.RWMutex).RUnlock"] = func(e *Engine, fr *frame, fn *ssa.Function, args []Value) Value {
		e.mutexUnlock(args[0].(*Value), false)
		return nil
	}
	intrinsics["(*sync.Mutex).TryLock"] = func(e *Engine, fr *frame, fn *ssa.Function, args []Value) Value {
		return e.st.Bool(e.mutexTryLock(args[0].(*Value), true))
	}
	intrinsics["(*sync.RWMutex).TryLock"] = intrinsics["(*sync.Mutex).TryLock"]
	intrinsics["(*sync.RWMutex).TryRLock"] = func(e *Engine, fr *frame, fn *ssa.Function, args []Value) Value {
		return e.st.Bool(e.mutexTryLock(args[0].(*Value), false))
	}
	intrinsics["(*sync.WaitGroup).Add"] = func(e *Engine, fr *frame, fn *ssa.Function, args []Value) Value {
		e.wgAdd(args[0].(*Value), int(e.cint(args[1], "WaitGroup.Add delta")))
		return nil
	}
	intrinsics["(*sync.WaitGroup).Done"] = func(e *Engine, fr *frame, fn *ssa.Function, args []Value) Value {
		e.wgAdd(args[0].(*Value), -1)
		return nil
	}
	intrinsics["(*sync.WaitGroup).Wait"] = func(e *Engine, fr *frame, fn *ssa.Function, args []Value) Value {
		e.wgWait(args[0].(*Value))
		return nil
	}
	intrinsics["(*sync.Once).Do"] = func(e *Engine, fr *frame, fn *ssa.Function, args []Value) Value {
		p := args[0].(*Value)
		if _, done := e.side[p]; done {
			return nil
		}
		e.side[p] = true
		e.callValue(fr, args[1], nil)
		return nil
	}
	intrinsics["(*sync.Pool).Get"] = func(e *Engine, fr *frame, fn *ssa.Function, args []Value) Value {
		p := args[0].(*Value)
		if l, ok := e.side[p].(*[]Value); ok && len(*l) > 0 {
			v := (*l)[len(*l)-1]
			*l = (*l)[:len(*l)-1]
			return v
		}
		s := (*p).(Struct)
		newFn := s[len(s)-1]
		if _, isNil := newFn.(FuncNil); isNil {
			return Iface{}
		}
		return e.callValue(fr, newFn, nil)
	}
	intrinsics["(*sync.Pool).Put"] = func(e *Engine, fr *frame, fn *ssa.Function, args []Value) Value {
		p := args[0].(*Value)
		l, ok := e.side[p].(*[]Value)
		if !ok {
			l = &[]Value{}
			e.side[p] = l
		}
		*l = append(*l, args[1])
		return nil
	}
	smap := func(e *Engine, p *Value) *Map {
		m, ok := e.side[p].(*Map)
		if !ok {
			m = &Map{}
			e.side[p] = m
		}
		return m
	}
	intrinsics["(*sync.Map).Load"] = func(e *Engine, fr *frame, fn *ssa.Function, args []Value) Value {
		e.yield("sync.Map.Load")
		e.syncAcqRel(args[0].(*Value))
		m := smap(e, args[0].(*Value))
		if i := e.mapFind(m, args[1]); i >= 0 {
			return Tuple{m.Vals[i], e.st.True}
		}
		return Tuple{Iface{}, e.st.False}
	}
	intrinsics["(*sync.Map).Store"] = func(e *Engine, fr *frame, fn *ssa.Function, args []Value) Value {
		e.yield("sync.Map.Store")
		e.syncAcqRel(args[0].(*Value))
		e.mapSet(smap(e, args[0].(*Value)), args[1], args[2])
		return nil
	}
	intrinsics["(*sync.Map).LoadOrStore"] = func(e *Engine, fr *frame, fn *ssa.Function, args []Value) Value {
		e.yield("sync.Map.LoadOrStore")
		e.syncAcqRel(args[0].(*Value))
		m := smap(e, args[0].(*Value))
		if i := e.mapFind(m, args[1]); i >= 0 {
			return Tuple{m.Vals[i], e.st.True}
		}
		m.Keys = append(m.Keys, args[1])
		m.Vals = append(m.Vals, args[2])
		return Tuple{args[2], e.st.False}
	}
	intrinsics["(*sync.Map).Delete"] = func(e *Engine, fr *frame, fn *ssa.Function, args []Value) Value {
		e.yield("sync.Map.Delete")
		e.syncAcqRel(args[0].(*Value))
		e.mapDelete(smap(e, args[0].(*Value)), args[1])
		return nil
	}
	intrinsics["(*sync.Map).Range"] = func(e *Engine, fr *frame, fn *ssa.Function, args []Value) Value {
		m := smap(e, args[0].(*Value))
		keys := append([]Value{}, m.Keys...)
		vals := append([]Value{}, m.Vals...)
		for i := range keys {
			e.yield("sync.Map.Range")
			e.syncAcqRel(args[0].(*Value))
			r := e.callValue(fr, args[1], []Value{keys[i], vals[i]})
			if !e.branch(r.(*Term)) {
				break
			}
		}
		return nil
	}

	// ------------------------------------------------------------ sync/atomic
	atomicAdd := func(e *Engine, fr *frame, fn *ssa.Function, args []Value) Value {
		p := args[0].(*Value)
		e.yield("atomic.Add")
		e.atomicAccess(p, true)
		if p == nil {
			panic(&goPanic{runtime: "invalid memory address or nil pointer dereference"})
		}
		nv := e.st.Bin(OpAdd, (*p).(*Term), args[1].(*Term))
		*p = nv
		return nv
	}
	atomicLoad := func(e *Engine, fr *frame, fn *ssa.Function, args []Value) Value {
		p := args[0].(*Value)
		e.yield("atomic.Load")
		e.atomicAccess(p, false)
		return *p
	}
	atomicStore := func(e *Engine, fr *frame, fn *ssa.Function, args []Value) Value {
		p := args[0].(*Value)
		e.yield("atomic.Store")
		e.atomicAccess(p, true)
		*p = args[1]
		return nil
	}
	atomicCAS := func(e *Engine, fr *frame, fn *ssa.Function, args []Value) Value {
		p := args[0].(*Value)
		e.yield("atomic.CAS")
		e.atomicAccess(p, true)
		eq := e.st.Eq((*p).(*Term), args[1].(*Term))
		if e.branch(eq) {
			*p = args[2]
			return e.st.True
		}
		return e.st.False
	}
	for _, t := range []string{"Int32", "Int64", "Uint32", "Uint64", "Uintptr"} {
		intrinsics["sync/atomic.Add"+t] = atomicAdd
		intrinsics["sync/atomic.Load"+t] = atomicLoad
		intrinsics["sync/atomic.Store"+t] = atomicStore
		intrinsics["sync/atomic.CompareAndSwap"+t] = atomicCAS
	}

	// ------------------------------------------------------------ math / floats
	intrinsics["math.Float64bits"] = func(e *Engine, fr *frame, fn *ssa.Function, args []Value) Value {
		f := args[0].(Float)
		if f.Opaque {
			return e.fresh("fbits", 64)
		}
		return e.st.Const(64, math.Float64bits(f.F))
	}
	intrinsics["math.Float64frombits"] = func(e *Engine, fr *frame, fn *ssa.Function, args []Value) Value {
		t := args[0].(*Term)
		if t.IsConst() {
			return Float{F: math.Float64frombits(t.Val)}
		}
		return Float{Opaque: true}
	}

	// ------------------------------------------------------------ fmt / errors / strconv
	intrinsics["fmt.Errorf"] = func(e *Engine, fr *frame, fn *ssa.Function, args []Value) Value {
		return e.newErrorIface("<fmt.Errorf " + fmtHead(args[0]) + ">")
	}
	intrinsics["fmt.Sprintf"] = func(e *Engine, fr *frame, fn *ssa.Function, args []Value) Value {
		// formats made only of %s / %d / %v verbs over strings and concrete integers are concatenations
		if f, ok := args[0].(Str); ok && !f.IsSym() {
			if r, ok := e.sprintfSimple(f.S, args[1].(Slice).V); ok {
				return r
			}
		}
		return Str{S: "<fmt.Sprintf " + fmtHead(args[0]) + ">"}
	}
	intrinsics[vrt+"RandDrawsEqual"] = func(e *Engine, fr *frame, fn *ssa.Function, args []Value) Value {
		if len(e.randDraws) < 2 {
			return e.st.False
		}
		a, b := e.randDraws[0], e.randDraws[1]
		if len(a) != len(b) {
			return e.st.False
		}
		cs := make([]*Term, len(a))
		for i := range a {
			cs[i] = e.st.Eq(a[i], b[i])
		}
		return e.st.And(cs...)
	}
	intrinsics["fmt.Sprint"] = func(e *Engine, fr *frame, fn *ssa.Function, args []Value) Value {
		// one operand that is a string, nil, a bool or a concrete integer keeps its text
		if vs, ok := args[0].(Slice); ok && len(vs.V) == 1 {
			if ifc, ok := vs.V[0].(Iface); ok {
				if ifc.T == nil {
					return Str{S: "<nil>"}
				}
				switch v := ifc.V.(type) {
				case Str:
					return v
				case *Term:
					if b, ok := ifc.T.Underlying().(*types.Basic); ok && v.IsConst() {
						switch {
						case b.Kind() == types.Bool:
							if v.Val != 0 {
								return Str{S: "true"}
							}
							return Str{S: "false"}
						case b.Info()&types.IsUnsigned != 0:
							return Str{S: strconv.FormatUint(v.Val, 10)}
						case b.Info()&types.IsInteger != 0:
							return Str{S: strconv.FormatInt(v.SVal(), 10)}
						}
					}
				}
			}
		}
		return Str{S: "<fmt.Sprint>"}
	}
	intrinsics["fmt.Fprintln"] = func(e *Engine, fr *frame, fn *ssa.Function, args []Value) Value {
		// one Write of the operands' text plus newline; only string operands keep their content
		var s Str
		for i, a := range args[1].(Slice).V {
			if i > 0 {
				s = e.strConcat(s, Str{S: " "})
			}
			if ifc, ok := a.(Iface); ok {
				if sv, ok := ifc.V.(Str); ok {
					s = e.strConcat(s, sv)
					continue
				}
			}
			s = e.strConcat(s, Str{S: "<v>"})
		}
		s = e.strConcat(s, Str{S: "\n"})
		return e.ioWrite(fr, args[0].(Iface), s)
	}
	intrinsics["fmt.Fprintf"] = func(e *Engine, fr *frame, fn *ssa.Function, args []Value) Value {
		return e.ioWrite(fr, args[0].(Iface), Str{S: "<fmt.Fprintf>"})
	}
	intrinsics["strconv.Itoa"] = func(e *Engine, fr *frame, fn *ssa.Function, args []Value) Value {
		t := e.asInt(args[0])
		if t.IsConst() {
			return Str{S: strconv.Itoa(int(t.SVal()))}
		}
		return Str{S: "<itoa>"}
	}
	intrinsics["strconv.Atoi"] = func(e *Engine, fr *frame, fn *ssa.Function, args []Value) Value {
		s := args[0].(Str)
		if s.IsSym() {
			panic(unsupported("strconv.Atoi of symbolic string"))
		}
		if v, ok := e.numStr[s.S]; ok { // numeric strings minted by the harness (symbolic Content-Length)
			return Tuple{v, Iface{}}
		}
		n, err := strconv.Atoi(s.S)
		if err != nil {
			return Tuple{e.st.Const(64, 0), e.newErrorIface("<strconv.Atoi>")}
		}
		return Tuple{e.st.Const(64, uint64(n)), Iface{}}
	}

	// ------------------------------------------------------------ strings (string-level models)
	native1 := func(f func(string) string) intrinsic {
		return func(e *Engine, fr *frame, fn *ssa.Function, args []Value) Value {
			return Str{S: f(cstr(args[0]))}
		}
	}
	intrinsics["strings.ToLower"] = native1(strings.ToLower)
	intrinsics["strings.ToUpper"] = native1(strings.ToUpper)
	intrinsics["net/textproto.CanonicalMIMEHeaderKey"] = native1(textproto.CanonicalMIMEHeaderKey)
	intrinsics["net/http.CanonicalHeaderKey"] = native1(textproto.CanonicalMIMEHeaderKey)
	intrinsics["strings.TrimSpace"] = func(e *Engine, fr *frame, fn *ssa.Function, args []Value) Value {
		return e.strTrimSpace(args[0].(Str))
	}
	intrinsics["strings.Trim"] = func(e *Engine, fr *frame, fn *ssa.Function, args []Value) Value {
		str, cut := args[0].(Str), args[1].(Str)
		if cut.IsSym() {
			panic(unsupported("strings.Trim with a symbolic cutset"))
		}
		if !str.IsSym() {
			return Str{S: strings.Trim(str.S, cut.S)}
		}
		for i := 0; i < len(cut.S); i++ {
			if cut.S[i] >= 0x80 {
				panic(unsupported("strings.Trim on a symbolic string with a non-ASCII cutset"))
			}
		}
		in := func(b *Term) *Term {
			cs := make([]*Term, len(cut.S))
			for i := 0; i < len(cut.S); i++ {
				cs[i] = e.st.Eq(b, e.st.Const(8, uint64(cut.S[i])))
			}
			return e.st.Or(cs...)
		}
		lo, hi := 0, len(str.Sym)
		for lo < hi && e.branch(in(str.Sym[lo])) {
			lo++
		}
		for hi > lo && e.branch(in(str.Sym[hi-1])) {
			hi--
		}
		return e.substr(str, lo, hi)
	}
	intrinsics["strings.Index"] = func(e *Engine, fr *frame, fn *ssa.Function, args []Value) Value {
		return e.st.Const(64, uint64(int64(e.strIndex(args[0].(Str), args[1].(Str)))))
	}
	intrinsics["strings.IndexByte"] = func(e *Engine, fr *frame, fn *ssa.Function, args []Value) Value {
		c := args[1].(*Term)
		return e.st.Const(64, uint64(int64(e.strIndexBytes(args[0].(Str), []*Term{c}))))
	}
	intrinsics["strings.Contains"] = func(e *Engine, fr *frame, fn *ssa.Function, args []Value) Value {
		return e.st.Bool(e.strIndex(args[0].(Str), args[1].(Str)) >= 0)
	}
	intrinsics["strings.HasPrefix"] = func(e *Engine, fr *frame, fn *ssa.Function, args []Value) Value {
		s, p := args[0].(Str), args[1].(Str)
		if s.Len() < p.Len() {
			return e.st.False
		}
		return e.strEq(e.substr(s, 0, p.Len()), p)
	}
	intrinsics["strings.HasSuffix"] = func(e *Engine, fr *frame, fn *ssa.Function, args []Value) Value {
		s, p := args[0].(Str), args[1].(Str)
		if s.Len() < p.Len() {
			return e.st.False
		}
		return e.strEq(e.substr(s, s.Len()-p.Len(), s.Len()), p)
	}
	intrinsics["strings.TrimPrefix"] = func(e *Engine, fr *frame, fn *ssa.Function, args []Value) Value {
		s, p := args[0].(Str), args[1].(Str)
		if s.Len() < p.Len() {
			return s
		}
		if e.branch(e.strEq(e.substr(s, 0, p.Len()), p)) {
			return e.substr(s, p.Len(), s.Len())
		}
		return s
	}
	intrinsics["strings.Split"] = func(e *Engine, fr *frame, fn *ssa.Function, args []Value) Value {
		s, sep := args[0].(Str), args[1].(Str)
		if sep.Len() == 0 {
			panic(unsupported("strings.Split with empty separator"))
		}
		var parts []Value
		for {
			i := e.strIndex(s, sep)
			if i < 0 {
				break
			}
			parts = append(parts, e.substr(s, 0, i))
			s = e.substr(s, i+sep.Len(), s.Len())
		}
		parts = append(parts, s)
		return Slice{V: parts}
	}
	intrinsics["strings.EqualFold"] = func(e *Engine, fr *frame, fn *ssa.Function, args []Value) Value {
		return e.st.Bool(strings.EqualFold(cstr(args[0]), cstr(args[1])))
	}

	// ------------------------------------------------------------ bytealg primitives (assembly in the real runtime)
	intrinsics["internal/bytealg.IndexByteString"] = func(e *Engine, fr *frame, fn *ssa.Function, args []Value) Value {
		return e.st.Const(64, uint64(int64(e.strIndexBytes(args[0].(Str), []*Term{args[1].(*Term)}))))
	}
	intrinsics["internal/bytealg.IndexString"] = func(e *Engine, fr *frame, fn *ssa.Function, args []Value) Value {
		return e.st.Const(64, uint64(int64(e.strIndex(args[0].(Str), args[1].(Str)))))
	}
	intrinsics["internal/bytealg.CountString"] = func(e *Engine, fr *frame, fn *ssa.Function, args []Value) Value {
		n := 0
		for _, b := range e.strBytes(args[0].(Str)) {
			if e.branch(e.st.Eq(b, args[1].(*Term))) {
				n++
			}
		}
		return e.st.Const(64, uint64(n))
	}
	intrinsics["internal/bytealg.IndexByte"] = func(e *Engine, fr *frame, fn *ssa.Function, args []Value) Value {
		sl := args[0].(Slice)
		for i, v := range sl.V {
			if e.branch(e.st.Eq(v.(*Term), args[1].(*Term))) {
				return e.st.Const(64, uint64(i))
			}
		}
		return e.st.Const(64, ^uint64(0))
	}

	// ------------------------------------------------------------ net
	intrinsics["net.SplitHostPort"] = func(e *Engine, fr *frame, fn *ssa.Function, args []Value) Value {
		s := args[0].(Str)
		if !s.IsSym() {
			h, p, err := net.SplitHostPort(s.S)
			if err != nil {
				return Tuple{Str{}, Str{}, e.newErrorIface("<net.SplitHostPort: " + err.Error() + ">")}
			}
			return Tuple{Str{S: h}, Str{S: p}, Iface{}}
		}
		return e.splitHostPortSym(s)
	}

	intrinsics["net/url.Parse"] = func(e *Engine, fr *frame, fn *ssa.Function, args []Value) Value {
		u, err := url.Parse(cstr(args[0]))
		if err != nil {
			return Tuple{(*Value)(nil), e.newErrorIface("<url.Parse: " + err.Error() + ">")}
		}
		return Tuple{e.mkURL(u), Iface{}}
	}
	// http.NewRequestWithContext: builds the Request value (method, parsed URL, empty
	// header, host, context); bodies other than nil are not modelled
	intrinsics["net/http.NewRequestWithContext"] = func(e *Engine, fr *frame, fn *ssa.Function, args []Value) Value {
		ctx, _ := args[0].(Iface)
		if ctx.T == nil {
			return Tuple{(*Value)(nil), e.newErrorIface("<net/http: nil Context>")}
		}
		if b, _ := args[3].(Iface); b.T != nil {
			panic(unsupported("http.NewRequestWithContext with a body"))
		}
		method := cstr(args[1])
		if method == "" {
			method = "GET"
		}
		u, err := url.Parse(cstr(args[2]))
		if err != nil {
			return Tuple{(*Value)(nil), e.newErrorIface("<url.Parse: " + err.Error() + ">")}
		}
		named := e.P.ByPath["net/http"].Type("Request").Type()
		rt := named.Underlying().(*types.Struct)
		z := e.zero(named).(Struct)
		set := func(name string, v Value) {
			for i := 0; i < rt.NumFields(); i++ {
				if rt.Field(i).Name() == name {
					z[i] = v
					return
				}
			}
			panic(unsupported("http.Request has no field " + name))
		}
		set("Method", Str{S: method})
		set("URL", e.mkURL(u))
		set("Proto", Str{S: "HTTP/1.1"})
		set("ProtoMajor", e.st.Const(64, 1))
		set("ProtoMinor", e.st.Const(64, 1))
		ht := e.P.ByPath["net/http"].Type("Header").Type().Underlying().(*types.Map)
		set("Header", &Map{KT: ht.Key(), VT: ht.Elem()})
		set("Host", Str{S: u.Host})
		set("ctx", ctx)
		p := new(Value)
		*p = z
		return Tuple{p, Iface{}}
	}
	intrinsics["net/http.NewRequest"] = func(e *Engine, fr *frame, fn *ssa.Function, args []Value) Value {
		bg := e.callFunction(fr, e.P.ByPath["context"].Func("Background"), nil, nil)
		return intrinsics["net/http.NewRequestWithContext"](e, fr, fn, append([]Value{bg}, args...))
	}
	intrinsics["(*net/url.URL).String"] = func(e *Engine, fr *frame, fn *ssa.Function, args []Value) Value {
		p := args[0].(*Value)
		if p == nil {
			panic(&goPanic{runtime: "invalid memory address or nil pointer dereference"})
		}
		return Str{S: e.urlOf(p).String()}
	}

	// ------------------------------------------------------------ net/http.ServeMux: exact-path dispatch
	type muxState struct {
		pats []string
		hs   []Value // http.Handler interface values
	}
	muxOf := func(e *Engine, p *Value) *muxState {
		m, ok := e.side[p].(*muxState)
		if !ok {
			m = &muxState{}
			e.side[p] = m
		}
		return m
	}
	intrinsics["(*net/http.ServeMux).Handle"] = func(e *Engine, fr *frame, fn *ssa.Function, args []Value) Value {
		m := muxOf(e, args[0].(*Value))
		m.pats = append(m.pats, cstr(args[1]))
		m.hs = append(m.hs, args[2])
		return nil
	}
	intrinsics["(*net/http.ServeMux).HandleFunc"] = func(e *Engine, fr *frame, fn *ssa.Function, args []Value) Value {
		m := muxOf(e, args[0].(*Value))
		hf := e.P.ByPath["net/http"].Type("HandlerFunc").Type()
		m.pats = append(m.pats, cstr(args[1]))
		m.hs = append(m.hs, Iface{T: hf, V: args[2]})
		return nil
	}
	intrinsics["(*net/http.ServeMux).ServeHTTP"] = func(e *Engine, fr *frame, fn *ssa.Function, args []Value) Value {
		m := muxOf(e, args[0].(*Value))
		w, req := args[1].(Iface), args[2].(*Value)
		// r.URL.Path
		rs := (*req).(Struct)
		rt := e.P.ByPath["net/http"].Type("Request").Type().Underlying().(*types.Struct)
		var path string
		for i := 0; i < rt.NumFields(); i++ {
			if rt.Field(i).Name() == "URL" {
				up := rs[i].(*Value)
				if up == nil {
					panic(&goPanic{runtime: "invalid memory address or nil pointer dereference"})
				}
				path = e.urlOf(up).Path
			}
		}
		for i, p := range m.pats {
			if p == path {
				h := m.hs[i].(Iface)
				meth := e.P.Prog.LookupMethod(h.T, nil, "ServeHTTP")
				return e.callFunction(fr, meth, []Value{h.V, w, req}, nil)
			}
		}
		// http.NotFound
		wh := e.P.Prog.LookupMethod(w.T, nil, "WriteHeader")
		e.callFunction(fr, wh, []Value{w.V, e.st.Const(64, 404)}, nil)
		e.ioWrite(fr, w, Str{S: "404 page not found\n"})
		return nil
	}

	// ------------------------------------------------------------ encoding/json (structure only)
	intrinsics["(*encoding/json.Encoder).Encode"] = func(e *Engine, fr *frame, fn *ssa.Function, args []Value) Value {
		enc := (*args[0].(*Value)).(Struct)
		e.ioWrite(fr, enc[0].(Iface), Str{S: "<json>\n"})
		return Iface{}
	}
	intrinsics["(*encoding/json.Encoder).SetIndent"] = noop
	intrinsics["(*encoding/json.Decoder).Decode"] = func(e *Engine, fr *frame, fn *ssa.Function, args []Value) Value {
		dec := (*args[0].(*Value)).(Struct)
		rd := dec[0].(Iface) // the io.Reader
		text, ok := e.readerText(rd)
		if !ok {
			panic(unsupported("json.Decoder over a reader that is not a *strings.Reader / nil body"))
		}
		var generic map[string]interface{}
		if err := json.Unmarshal([]byte(text), &generic); err != nil {
			return e.newErrorIface("<json: " + err.Error() + ">")
		}
		target := args[1].(Iface)
		pt, okp := target.T.(*types.Pointer)
		if !okp {
			panic(unsupported("json Decode target is not a pointer"))
		}
		st, oks := pt.Elem().Underlying().(*types.Struct)
		if !oks {
			panic(unsupported("json Decode target is not a struct"))
		}
		obj := (*target.V.(*Value)).(Struct)
		for i := 0; i < st.NumFields(); i++ {
			f := st.Field(i)
			name := f.Name()
			if tag := reflect.StructTag(st.Tag(i)).Get("json"); tag != "" {
				name = strings.Split(tag, ",")[0]
			}
			for k, v := range generic {
				if !strings.EqualFold(k, name) {
					continue
				}
				switch x := v.(type) {
				case string:
					if isStringT(f.Type()) {
						obj[i] = Str{S: x}
					} else {
						return e.newErrorIface("<json: cannot unmarshal string>")
					}
				case float64:
					if isIntegerT(f.Type()) {
						obj[i] = e.st.Const(intWidth(f.Type()), uint64(int64(x)))
					} else {
						return e.newErrorIface("<json: cannot unmarshal number>")
					}
				}
			}
		}
		return Iface{}
	}

	// ------------------------------------------------------------ net: IP parsing
	intrinsics["net.ParseIP"] = func(e *Engine, fr *frame, fn *ssa.Function, args []Value) Value {
		s := args[0].(Str)
		if s.IsSym() {
			panic(unsupported("net.ParseIP of a symbolic string (use the harness's symbolic peer marker)"))
		}
		if ip, ok := e.symIPs[s.S]; ok {
			return ip
		}
		ip := net.ParseIP(s.S)
		if ip == nil {
			return Slice{Nil: true}
		}
		return e.bytesVal(ip)
	}
	intrinsics["net.ParseCIDR"] = func(e *Engine, fr *frame, fn *ssa.Function, args []Value) Value {
		ip, n, err := net.ParseCIDR(cstr(args[0]))
		if err != nil {
			return Tuple{Slice{Nil: true}, (*Value)(nil), e.newErrorIface("<net.ParseCIDR: " + err.Error() + ">")}
		}
		p := new(Value)
		*p = Struct{e.bytesVal(n.IP), e.bytesVal(n.Mask)}
		return Tuple{e.bytesVal(ip), p, Iface{}}
	}
	intrinsics[vrt+"SymIP"] = func(e *Engine, fr *frame, fn *ssa.Function, args []Value) Value {
		// registers marker -> IP value (a []byte built by the harness from symbolic bytes)
		e.symIPs[cstr(args[0])] = args[1]
		return nil
	}

	// ------------------------------------------------------------ logging: empty bodies
	pkgIntrinsics["github.com/rs/zerolog"] = chain
	pkgIntrinsics["github.com/rs/zerolog/log"] = chain
	intrinsics[hlog+"L"] = noop
	intrinsics[hlog+"WithContext"] = noop
	intrinsics[hlog+"Init"] = noop
	intrinsics[hlog+"init#1"] = noop
	intrinsics[hlog+"enrichLogger"] = noop

	// ------------------------------------------------------------ context
	intrinsics["context.WithValue"] = func(e *Engine, fr *frame, fn *ssa.Function, args []Value) Value {
		pkg := e.P.ByPath["context"]
		vt := pkg.Type("valueCtx").Type()
		p := new(Value)
		*p = Struct{args[0], args[1], args[2]}
		return Iface{T: types.NewPointer(vt), V: p}
	}

	// cancellable contexts: a flag object whose Done channel is closed by
	// cancel(), by the cancellation of a modelled ancestor, or - for contexts
	// with a deadline - when virtual time reaches the deadline (verifrt.Advance,
	// or the scheduler firing the earliest timer when every thread is blocked).
	mkCtx := func(e *Engine, parent Value, deadline *Term) (Iface, *ctxState) {
		pkg := e.P.ByPath["context"]
		ct := pkg.Type("cancelCtx").Type()
		p := new(Value)
		z := e.zero(ct).(Struct)
		z[0] = parent // embedded parent Context
		*p = z
		st := &ctxState{ch: &Chan{}, err: Iface{}, deadline: deadline}
		e.side[p] = st
		if pi, ok := parent.(Iface); ok {
			if pv, ok := pi.V.(*Value); ok {
				if ps, ok := e.side[pv].(*ctxState); ok {
					if ps.ch.Closed {
						st.ch.Closed = true
						st.err = ps.err
					} else {
						ps.children = append(ps.children, st)
					}
					if deadline == nil {
						st.deadline = ps.deadline
					}
				}
			}
		}
		if deadline != nil && !st.ch.Closed {
			e.timers = append(e.timers, st)
		}
		return Iface{T: types.NewPointer(ct), V: p}, st
	}
	mkCancel := func(st *ctxState) *NativeFn {
		return &NativeFn{Name: "context.CancelFunc", F: func(e *Engine, _ []Value) Value {
			e.yield("context cancel")
			e.ctxClose(st, e.globalErr("context", "Canceled"), true)
			return nil
		}}
	}
	intrinsics["context.WithCancel"] = func(e *Engine, fr *frame, fn *ssa.Function, args []Value) Value {
		c, st := mkCtx(e, args[0], nil)
		return Tuple{c, mkCancel(st)}
	}
	intrinsics["context.WithTimeout"] = func(e *Engine, fr *frame, fn *ssa.Function, args []Value) Value {
		c, st := mkCtx(e, args[0], e.st.Bin(OpAdd, e.clock, e.asInt(args[1])))
		e.ctxExpire()
		return Tuple{c, mkCancel(st)}
	}
	intrinsics["context.WithDeadline"] = func(e *Engine, fr *frame, fn *ssa.Function, args []Value) Value {
		c, st := mkCtx(e, args[0], e.timeNs(args[1]))
		e.ctxExpire()
		return Tuple{c, mkCancel(st)}
	}
	intrinsics["(*context.cancelCtx).Done"] = func(e *Engine, fr *frame, fn *ssa.Function, args []Value) Value {
		st, ok := e.side[args[0].(*Value)].(*ctxState)
		if !ok {
			panic(unsupported("cancelCtx not created by context.WithCancel"))
		}
		e.yield("ctx.Done")
		return st.ch
	}
	intrinsics["(*context.cancelCtx).Deadline"] = func(e *Engine, fr *frame, fn *ssa.Function, args []Value) Value {
		p := args[0].(*Value)
		if st, ok := e.side[p].(*ctxState); ok && st.deadline != nil {
			return Tuple{e.mkTime(st.deadline), e.st.True}
		}
		// no deadline of its own: ask the parent (embedded Context)
		if parent, ok := (*p).(Struct)[0].(Iface); ok && parent.T != nil {
			if e.P.Prog.MethodSets.MethodSet(parent.T).Lookup(nil, "Deadline") != nil {
				return e.callFunction(fr, e.P.Prog.LookupMethod(parent.T, nil, "Deadline"), []Value{parent.V}, nil)
			}
		}
		return Tuple{e.mkTime(e.st.Const(64, 0)), e.st.False}
	}
	intrinsics["(*context.cancelCtx).Err"] = func(e *Engine, fr *frame, fn *ssa.Function, args []Value) Value {
		st, ok := e.side[args[0].(*Value)].(*ctxState)
		if !ok {
			panic(unsupported("cancelCtx not created by context.WithCancel"))
		}
		return st.err
	}

	// ------------------------------------------------------------ runtime / os
	pkgIntrinsics["runtime"] = noop
	pkgIntrinsics["runtime/debug"] = noop
	// zerolog.ParseLevel on concrete text (its documented table; zerolog v1.34: "" is NoLevel without an error)
	intrinsics["github.com/rs/zerolog.ParseLevel"] = func(e *Engine, fr *frame, fn *ssa.Function, args []Value) Value {
		levels := map[string]int64{"trace": -1, "debug": 0, "info": 1, "warn": 2, "error": 3, "fatal": 4, "panic": 5, "": 6, "disabled": 7}
		txt := strings.ToLower(cstr(args[0]))
		if v, ok := levels[txt]; ok {
			return Tuple{e.st.Const(8, uint64(v)), Iface{}}
		}
		if n, err := strconv.Atoi(txt); err == nil && n >= -128 && n <= 127 {
			return Tuple{e.st.Const(8, uint64(int64(n))), Iface{}}
		}
		return Tuple{e.st.Const(8, 6), e.newErrorIface("<zerolog: unknown level>")}
	}
	// the process environment is empty (no variable is set): os.Getenv / LookupEnv / ExpandEnv on concrete text
	intrinsics["os.Getenv"] = func(e *Engine, fr *frame, fn *ssa.Function, args []Value) Value { return Str{} }
	intrinsics["os.LookupEnv"] = func(e *Engine, fr *frame, fn *ssa.Function, args []Value) Value {
		return Tuple{Str{}, e.st.False}
	}
	intrinsics["os.ExpandEnv"] = func(e *Engine, fr *frame, fn *ssa.Function, args []Value) Value {
		return Str{S: os.Expand(cstr(args[0]), func(string) string { return "" })}
	}
	intrinsics["os.Exit"] = func(e *Engine, fr *frame, fn *ssa.Function, args []Value) Value {
		panic(&abortSignal{kind: abortDone, msg: "os.Exit"})
	}

	// ------------------------------------------------------------ compress/gzip (abstract encoder)
	// The DEFLATE stream is opaque: Close emits ONE token 1f 8b '[' data ']'
	// carrying the buffered content; the harness-side decoder understands it.
	type gzState struct {
		w      Iface
		data   Str
		closed bool
	}
	intrinsics["compress/gzip.NewWriterLevel"] = func(e *Engine, fr *frame, fn *ssa.Function, args []Value) Value {
		lvl := e.asInt(args[1])
		bad := e.st.Or(e.st.Cmp(OpSLt, lvl, e.st.Const(64, ^uint64(1))), e.st.Cmp(OpSLt, e.st.Const(64, 9), lvl)) // level < -2 || level > 9
		if e.branch(bad) {
			return Tuple{(*Value)(nil), e.newErrorIface("<gzip: invalid compression level>")}
		}
		p := new(Value)
		*p = e.zero(e.P.ByPath["compress/gzip"].Type("Writer").Type())
		e.side[p] = &gzState{w: args[0].(Iface)}
		return Tuple{p, Iface{}}
	}
	intrinsics["(*compress/gzip.Writer).Write"] = func(e *Engine, fr *frame, fn *ssa.Function, args []Value) Value {
		st, ok := e.side[args[0].(*Value)].(*gzState)
		if !ok {
			panic(unsupported("gzip.Writer not created by NewWriterLevel"))
		}
		sl := args[1].(Slice)
		bs := make([]*Term, len(sl.V))
		for i, v := range sl.V {
			bs[i] = v.(*Term)
		}
		if len(bs) > 0 {
			st.data = e.strConcat(st.data, e.normStr(bs))
		}
		return Tuple{e.st.Const(64, uint64(len(bs))), Iface{}}
	}
	intrinsics["(*compress/gzip.Writer).Close"] = func(e *Engine, fr *frame, fn *ssa.Function, args []Value) Value {
		st, ok := e.side[args[0].(*Value)].(*gzState)
		if !ok {
			panic(unsupported("gzip.Writer not created by NewWriterLevel"))
		}
		if st.closed {
			return Iface{}
		}
		st.closed = true
		tok := e.strConcat(e.strConcat(Str{S: "\x1f\x8b["}, st.data), Str{S: "]"})
		e.ioWrite(fr, st.w, tok)
		return Iface{}
	}
	intrinsics["(*compress/gzip.Writer).Flush"] = noop

	// ------------------------------------------------------------ sort (reflection-free models)
	sortSlice := func(e *Engine, fr *frame, fn *ssa.Function, args []Value) Value {
		x, ok := args[0].(Iface)
		if !ok {
			panic(unsupported("sort.Slice argument"))
		}
		sl, ok := x.V.(Slice)
		if !ok {
			panic(unsupported("sort.Slice of a non-slice"))
		}
		less := args[1]
		// stable insertion sort driven by the real less closure (elements are swapped in place)
		for i := 1; i < len(sl.V); i++ {
			for j := i; j > 0; j-- {
				r := e.callValue(fr, less, []Value{e.st.Const(64, uint64(j)), e.st.Const(64, uint64(j-1))})
				if !e.branch(r.(*Term)) {
					break
				}
				sl.V[j], sl.V[j-1] = sl.V[j-1], sl.V[j]
			}
		}
		return nil
	}
	intrinsics["sort.Slice"] = sortSlice
	intrinsics["sort.SliceStable"] = sortSlice
	intrinsics["sort.Strings"] = func(e *Engine, fr *frame, fn *ssa.Function, args []Value) Value {
		sl := args[0].(Slice)
		for i := 1; i < len(sl.V); i++ {
			for j := i; j > 0; j-- {
				a, b := sl.V[j].(Str), sl.V[j-1].(Str)
				if a.IsSym() || b.IsSym() {
					panic(unsupported("sort.Strings on symbolic strings"))
				}
				if !(a.S < b.S) {
					break
				}
				sl.V[j], sl.V[j-1] = sl.V[j-1], sl.V[j]
			}
		}
		return nil
	}

	// ------------------------------------------------------------ crypto/rand
	intrinsics["crypto/rand.Read"] = func(e *Engine, fr *frame, fn *ssa.Function, args []Value) Value {
		b := args[0].(Slice)
		if e.randStream {
			// "distinct draws" mode (verifrt.DistinctRandomness): the byte stream is a sequence of
			// 4-byte big-endian counters starting at 1, so any two windows of >= 4 bytes at different stream
			// offsets differ - the idealisation "no two random draws ever coincide"
			for i := range b.V {
				p := e.randPos
				e.randPos++
				ctr := uint32(p/4) + 1
				b.V[i] = e.st.Const(8, uint64(byte(ctr>>(8*(3-uint(p%4))))))
			}
			return Tuple{e.st.Const(64, uint64(len(b.V))), Iface{}}
		}
		var draw []*Term
		for i := range b.V {
			t := e.fresh("rand", 8) // not a replay input: natively crypto/rand supplies real randomness
			b.V[i] = t
			draw = append(draw, t)
		}
		e.randDraws = append(e.randDraws, draw)
		return Tuple{e.st.Const(64, uint64(len(b.V))), Iface{}}
	}
}

func fmtHead(v Value) string {
	if s, ok := v.(Str); ok && !s.IsSym() {
		if len(s.S) > 40 {
			return s.S[:40]
		}
		return s.S
	}
	return "?"
}

// ioWrite calls w.Write([]byte(s)) on an io.Writer interface value.
func (e *Engine) ioWrite(fr *frame, w Iface, s Str) Value {
	if w.T == nil {
		panic(&goPanic{runtime: "nil io.Writer"})
	}
	m := e.P.Prog.LookupMethod(w.T, nil, "Write")
	if m == nil {
		panic(unsupported("Write method not found on " + w.T.String()))
	}
	bs := e.strBytes(s)
	vs := make([]Value, len(bs))
	for i, b := range bs {
		vs[i] = b
	}
	return e.callFunction(fr, m, []Value{w.V, Slice{V: vs}}, nil)
}

func (e *Engine) substr(s Str, lo, hi int) Str {
	if lo == hi {
		return Str{}
	}
	if s.IsSym() {
		return e.normStr(s.Sym[lo:hi])
	}
	return Str{S: s.S[lo:hi]}
}

func isSpaceTerm(e *Engine, b *Term) *Term {
	st := e.st
	return st.Or(st.Eq(b, st.Const(8, ' ')), st.Eq(b, st.Const(8, '\t')), st.Eq(b, st.Const(8, '\n')),
		st.Eq(b, st.Const(8, '\r')), st.Eq(b, st.Const(8, '\v')), st.Eq(b, st.Const(8, '\f')))
}

// unicodeSpaces: the UTF-8 encodings of the non-ASCII code points with the
// Unicode White_Space property (what unicode.IsSpace accepts beyond Latin-1's
// ASCII part): U+0085, U+00A0, U+1680, U+2000..U+200A, U+2028, U+2029, U+202F,
// U+205F, U+3000.
var unicodeSpaces = func() [][]byte {
	var out [][]byte
	for _, r := range []rune{0x85, 0xA0, 0x1680, 0x2000, 0x2001, 0x2002, 0x2003, 0x2004, 0x2005, 0x2006, 0x2007, 0x2008, 0x2009, 0x200A, 0x2028, 0x2029, 0x202F, 0x205F, 0x3000} {
		out = append(out, []byte(string(r)))
	}
	return out
}()

// strTrimSpace models strings.TrimSpace on a symbolic string: ASCII white space
// and the UTF-8 encoded Unicode white space above are trimmed from both ends; a
// byte >= 0x80 that does not start (end) one of those encodings stops the
// trimming, as it does in the real function (any other rune, or invalid UTF-8).
func (e *Engine) strTrimSpace(s Str) Str {
	if !s.IsSym() {
		return Str{S: strings.TrimSpace(s.S)}
	}
	st := e.st
	lo, hi := 0, len(s.Sym)
	match := func(at int, seq []byte) *Term {
		cs := make([]*Term, len(seq))
		for j, c := range seq {
			cs[j] = st.Eq(s.Sym[at+j], st.Const(8, uint64(c)))
		}
		return st.And(cs...)
	}
	anyOfLen := func(at, n int) *Term {
		var cs []*Term
		for _, seq := range unicodeSpaces {
			if len(seq) == n {
				cs = append(cs, match(at, seq))
			}
		}
		return st.Or(cs...)
	}
	for lo < hi {
		if e.branch(isSpaceTerm(e, s.Sym[lo])) {
			lo++
			continue
		}
		if s.Sym[lo].IsConst() && s.Sym[lo].Val < 0x80 {
			break
		}
		if e.branch(st.Cmp(OpULt, s.Sym[lo], st.Const(8, 0x80))) {
			break
		}
		adv := 0
		for n := 2; n <= 3 && adv == 0; n++ {
			if lo+n <= hi && e.branch(anyOfLen(lo, n)) {
				adv = n
			}
		}
		if adv == 0 {
			break
		}
		lo += adv
	}
	for hi > lo {
		if e.branch(isSpaceTerm(e, s.Sym[hi-1])) {
			hi--
			continue
		}
		if s.Sym[hi-1].IsConst() && s.Sym[hi-1].Val < 0x80 {
			break
		}
		if e.branch(st.Cmp(OpULt, s.Sym[hi-1], st.Const(8, 0x80))) {
			break
		}
		adv := 0
		for n := 2; n <= 3 && adv == 0; n++ {
			if hi-n >= lo && e.branch(anyOfLen(hi-n, n)) {
				adv = n
			}
		}
		if adv == 0 {
			break
		}
		hi -= adv
	}
	return e.substr(s, lo, hi)
}

func (e *Engine) strIndex(s, sep Str) int {
	if !s.IsSym() && !sep.IsSym() {
		return strings.Index(s.S, sep.S)
	}
	return e.strIndexBytes(s, e.strBytes(sep))
}

// strIndexBytes finds the first occurrence by forking per position.
func (e *Engine) strIndexBytes(s Str, sep []*Term) int {
	bs := e.strBytes(s)
	n, m := len(bs), len(sep)
	if m == 0 {
		return 0
	}
	for i := 0; i+m <= n; i++ {
		cs := make([]*Term, m)
		for j := 0; j < m; j++ {
			cs[j] = e.st.Eq(bs[i+j], sep[j])
		}
		if e.branch(e.st.And(cs...)) {
			return i
		}
	}
	return -1
}

// splitHostPortSym models net.SplitHostPort on a symbolic string whose bytes
// are restricted (by the harness) to the alphabet without '[' and ']': the
// documented behaviour is then "split at the last colon; error if there is no
// colon or more than one".
func (e *Engine) splitHostPortSym(s Str) Value {
	bs := s.Sym
	for _, b := range bs {
		if !b.IsConst() {
			br := e.st.Or(e.st.Eq(b, e.st.Const(8, '[')), e.st.Eq(b, e.st.Const(8, ']')))
			if e.branch(br) {
				panic(unsupported("net.SplitHostPort on symbolic string containing brackets"))
			}
		} else if b.Val == '[' || b.Val == ']' {
			panic(unsupported("net.SplitHostPort on symbolic string containing brackets"))
		}
	}
	last := -1
	count := 0
	for i, b := range bs {
		if e.branch(e.st.Eq(b, e.st.Const(8, ':'))) {
			last = i
			count++
		}
	}
	if count == 0 {
		return Tuple{Str{}, Str{}, e.newErrorIface("<net.SplitHostPort: missing port in address>")}
	}
	if count > 1 {
		return Tuple{Str{}, Str{}, e.newErrorIface("<net.SplitHostPort: too many colons in address>")}
	}
	return Tuple{e.substr(s, 0, last), e.substr(s, last+1, len(bs)), Iface{}}
}

var urlFields = []string{"Scheme", "Opaque", "User", "Host", "Path", "RawPath", "OmitHost", "ForceQuery", "RawQuery", "Fragment", "RawFragment"}

func (e *Engine) urlStruct() *types.Struct {
	return e.P.ByPath["net/url"].Type("URL").Type().Underlying().(*types.Struct)
}

// mkURL builds the interpreter's representation of a *url.URL.
func (e *Engine) mkURL(u *url.URL) *Value {
	st := e.urlStruct()
	s := make(Struct, st.NumFields())
	for i := 0; i < st.NumFields(); i++ {
		f := st.Field(i)
		switch f.Name() {
		case "Scheme":
			s[i] = Str{S: u.Scheme}
		case "Opaque":
			s[i] = Str{S: u.Opaque}
		case "Host":
			s[i] = Str{S: u.Host}
		case "Path":
			s[i] = Str{S: u.Path}
		case "RawPath":
			s[i] = Str{S: u.RawPath}
		case "RawQuery":
			s[i] = Str{S: u.RawQuery}
		case "Fragment":
			s[i] = Str{S: u.Fragment}
		case "RawFragment":
			s[i] = Str{S: u.RawFragment}
		case "OmitHost":
			s[i] = e.st.Bool(u.OmitHost)
		case "ForceQuery":
			s[i] = e.st.Bool(u.ForceQuery)
		default:
			s[i] = e.zero(f.Type())
		}
	}
	p := new(Value)
	*p = s
	return p
}

func (e *Engine) urlOf(p *Value) *url.URL {
	st := e.urlStruct()
	s := (*p).(Struct)
	u := &url.URL{}
	get := func(v Value) string {
		x, ok := v.(Str)
		if !ok || x.IsSym() {
			return "<sym>"
		}
		return x.S
	}
	for i := 0; i < st.NumFields(); i++ {
		switch st.Field(i).Name() {
		case "Scheme":
			u.Scheme = get(s[i])
		case "Opaque":
			u.Opaque = get(s[i])
		case "Host":
			u.Host = get(s[i])
		case "Path":
			u.Path = get(s[i])
		case "RawQuery":
			u.RawQuery = get(s[i])
		case "Fragment":
			u.Fragment = get(s[i])
		}
	}
	return u
}

func (e *Engine) sprintfSimple(f string, args []Value) (Str, bool) {
	var out Str
	ai := 0
	lit := ""
	flush := func() {
		if lit != "" {
			out = e.strConcat(out, Str{S: lit})
			lit = ""
		}
	}
	for i := 0; i < len(f); i++ {
		if f[i] != '%' {
			lit += string(f[i])
			continue
		}
		if i+1 >= len(f) {
			return Str{}, false
		}
		i++
		switch f[i] {
		case '%':
			lit += "%"
		case 's', 'v', 'd':
			if ai >= len(args) {
				return Str{}, false
			}
			a, ok := args[ai].(Iface)
			ai++
			if !ok {
				return Str{}, false
			}
			switch v := a.V.(type) {
			case Str:
				flush()
				out = e.strConcat(out, v)
			case *Term:
				if !v.IsConst() || v.W == 0 {
					return Str{}, false
				}
				lit += strconv.FormatInt(v.SVal(), 10)
			default:
				return Str{}, false
			}
		default:
			return Str{}, false
		}
	}
	flush()
	return out, true
}

// globalErr returns the (lazily materialised) value of a package-level error variable.
func (e *Engine) globalErr(pkg, name string) Value {
	sp := e.P.ByPath[pkg]
	if sp == nil {
		return e.newErrorIface("<" + pkg + "." + name + ">")
	}
	g, ok := sp.Members[name].(*ssa.Global)
	if !ok {
		return e.newErrorIface("<" + pkg + "." + name + ">")
	}
	return *e.globalAddr(g)
}

func (e *Engine) bytesVal(b []byte) Slice {
	vs := make([]Value, len(b))
	for i, c := range b {
		vs[i] = e.st.Const(8, uint64(c))
	}
	return Slice{V: vs}
}

// readerText extracts the text behind an io.Reader built from a concrete
// string (strings.NewReader, possibly wrapped by io.NopCloser / http.NoBody).
func (e *Engine) readerText(rd Iface) (string, bool) {
	if rd.T == nil {
		return "", true
	}
	ts := rd.T.String()
	switch {
	case strings.HasSuffix(ts, "strings.Reader"):
		p, ok := rd.V.(*Value)
		if !ok || p == nil {
			return "", false
		}
		st := (*p).(Struct)
		if s, ok := st[0].(Str); ok && !s.IsSym() {
			return s.S, true
		}
		return "", false
	case strings.HasSuffix(ts, "io.nopCloser") || strings.HasSuffix(ts, "io.nopCloserWriterTo"):
		if st, ok := rd.V.(Struct); ok {
			if inner, ok := st[0].(Iface); ok {
				return e.readerText(inner)
			}
		}
	case strings.HasSuffix(ts, "http.noBody"):
		return "", true
	}
	// a wrapper struct embedding the reader as its first field
	switch v := rd.V.(type) {
	case Struct:
		if len(v) > 0 {
			if p, ok := v[0].(*Value); ok && p != nil {
				if st, ok := (*p).(Struct); ok && len(st) > 0 {
					if s, ok := st[0].(Str); ok && !s.IsSym() {
						return s.S, true
					}
				}
			}
			if inner, ok := v[0].(Iface); ok {
				return e.readerText(inner)
			}
		}
	case *Value:
		if v != nil {
			if st, ok := (*v).(Struct); ok && len(st) > 0 {
				if inner, ok := st[0].(Iface); ok {
					return e.readerText(inner)
				}
				if p, ok := st[0].(*Value); ok && p != nil {
					if st2, ok := (*p).(Struct); ok && len(st2) > 0 {
						if s, ok := st2[0].(Str); ok && !s.IsSym() {
							return s.S, true
						}
					}
				}
			}
		}
	}
	return "", false
}

// ctxState models a cancellable context (see context.WithCancel / WithTimeout).
type ctxState struct {
	ch       *Chan
	err      Value
	children []*ctxState
	deadline *Term // nil: none
}

// ctxClose closes a context and every modelled descendant.
func (e *Engine) ctxClose(st *ctxState, err Value, byThread bool) {
	if st.ch.Closed {
		return
	}
	st.ch.Closed = true
	st.err = err
	if byThread {
		e.chanClosed(st.ch)
	}
	for _, c := range st.children {
		e.ctxClose(c, err, byThread)
	}
}

// ctxExpire closes every context whose deadline virtual time has reached.
func (e *Engine) ctxExpire() {
	for _, st := range e.timers {
		if st.ch.Closed {
			continue
		}
		if e.branch(e.st.Cmp(OpSLe, st.deadline, e.clock)) {
			e.ctxClose(st, e.globalErr("context", "DeadlineExceeded"), false)
		}
	}
}

// fireTimer is called by the scheduler when every thread is blocked: virtual
// time jumps to the earliest pending deadline (which one is earliest is a
// decision constrained by the deadlines) and that context expires. Reports
// whether a timer fired.
func (e *Engine) fireTimer() bool {
	var pend []*ctxState
	for _, st := range e.timers {
		if !st.ch.Closed {
			pend = append(pend, st)
		}
	}
	if len(pend) == 0 {
		return false
	}
	k := 0
	if len(pend) > 1 {
		k = e.choose(len(pend), func(i int) *Term {
			c := e.st.True
			for j, o := range pend {
				if j != i {
					c = e.st.And(c, e.st.Cmp(OpSLe, pend[i].deadline, o.deadline))
				}
			}
			return c
		}, true)
	}
	st := pend[k]
	if e.branch(e.st.Cmp(OpSLt, e.clock, st.deadline)) {
		e.clock = st.deadline
	}
	e.res.Intrinsics["timer fired (all threads blocked)"]++
	e.ctxClose(st, e.globalErr("context", "DeadlineExceeded"), false)
	e.ctxExpire()
	return true
}

// tickReady: a ticker's channel is ready while the budget granted by the most
// recent verifrt.Ticks lasts, for tickers created after that call.
func (e *Engine) tickReady(c *Chan) bool {
	return c.Ticker && e.ticks > 0 && c.Epoch == e.tickEpoch
}
