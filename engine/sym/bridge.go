package sym

import (
	"fmt"
	"go/types"
	"net/netip"
	"reflect"
	"strings"

	"golang.org/x/tools/go/ssa"
)

// Opaque is a value of a standard-library type that the executor does not
// look into (net/netip's Addr, Prefix, AddrPort: 128-bit arithmetic and unique
// handles). It is always CONCRETE: the functions and methods of the package are
// evaluated by calling the real library through reflection (bridgeCall), so
// such code is executed exactly, for concrete arguments only.
type Opaque struct {
	V interface{}
}

var netipFuncs = map[string]interface{}{
	"ParseAddr": netip.ParseAddr, "MustParseAddr": netip.MustParseAddr, "AddrFrom4": netip.AddrFrom4, "AddrFrom16": netip.AddrFrom16,
	"AddrFromSlice": netip.AddrFromSlice, "ParsePrefix": netip.ParsePrefix, "MustParsePrefix": netip.MustParsePrefix, "PrefixFrom": netip.PrefixFrom,
	"ParseAddrPort": netip.ParseAddrPort, "MustParseAddrPort": netip.MustParseAddrPort, "AddrPortFrom": netip.AddrPortFrom,
	"IPv4Unspecified": netip.IPv4Unspecified, "IPv6Unspecified": netip.IPv6Unspecified, "IPv6Loopback": netip.IPv6Loopback,
	"IPv6LinkLocalAllNodes": netip.IPv6LinkLocalAllNodes, "IPv6LinkLocalAllRouters": netip.IPv6LinkLocalAllRouters,
}

var netipZero = map[string]interface{}{"Addr": netip.Addr{}, "Prefix": netip.Prefix{}, "AddrPort": netip.AddrPort{}}

// opaqueZero returns the zero value of a bridged named type, or nil.
func opaqueZero(t types.Type) Value {
	n, ok := t.(*types.Named)
	if !ok || n.Obj().Pkg() == nil || n.Obj().Pkg().Path() != "net/netip" {
		return nil
	}
	if z, ok := netipZero[n.Obj().Name()]; ok {
		return Opaque{V: z}
	}
	return nil
}

func registerBridge() {
	pkgIntrinsics["net/netip"] = bridgeCall
}

// bridgeCall evaluates a net/netip function or method on concrete arguments with the real library.
func bridgeCall(e *Engine, fr *frame, fn *ssa.Function, args []Value) Value {
	if fn.Name() == "init" || strings.HasPrefix(fn.Name(), "init#") {
		return nil // package initialisation: the real package is already initialised
	}
	var f reflect.Value
	if recv := fn.Signature.Recv(); recv != nil {
		if _, isPtr := recv.Type().(*types.Pointer); isPtr {
			panic(unsupported("net/netip method with pointer receiver: " + fn.String()))
		}
		o, ok := args[0].(Opaque)
		if !ok {
			panic(unsupported(fmt.Sprintf("net/netip method %s on %T", fn.Name(), args[0])))
		}
		f = reflect.ValueOf(o.V).MethodByName(fn.Name())
		if !f.IsValid() {
			panic(unsupported("net/netip method not bridged: " + fn.String()))
		}
		args = args[1:]
	} else {
		g, ok := netipFuncs[fn.Name()]
		if !ok {
			panic(unsupported("net/netip function not bridged: " + fn.String()))
		}
		f = reflect.ValueOf(g)
	}
	ft := f.Type()
	if ft.IsVariadic() || ft.NumIn() != len(args) {
		panic(unsupported("net/netip call shape: " + fn.String()))
	}
	in := make([]reflect.Value, len(args))
	for i, a := range args {
		in[i] = e.toGo(a, ft.In(i), fn)
	}
	var out []reflect.Value
	func() {
		defer func() {
			if r := recover(); r != nil {
				panic(&goPanic{runtime: fmt.Sprint(r)})
			}
		}()
		out = f.Call(in)
	}()
	res := fn.Signature.Results()
	vals := make([]Value, len(out))
	for i, o := range out {
		vals[i] = e.fromGo(o, res.At(i).Type(), fn)
	}
	switch len(vals) {
	case 0:
		return nil
	case 1:
		return vals[0]
	}
	return Tuple(vals)
}

func (e *Engine) toGo(v Value, t reflect.Type, fn *ssa.Function) reflect.Value {
	fail := func() reflect.Value {
		panic(unsupported(fmt.Sprintf("net/netip bridge: symbolic or unsupported argument (%T) for %s", v, fn.String())))
	}
	switch t.Kind() {
	case reflect.String:
		s, ok := v.(Str)
		if !ok || s.IsSym() {
			return fail()
		}
		return reflect.ValueOf(s.S).Convert(t)
	case reflect.Bool:
		b, ok := v.(*Term)
		if !ok {
			return fail()
		}
		if b == e.st.True {
			return reflect.ValueOf(true)
		}
		if b == e.st.False {
			return reflect.ValueOf(false)
		}
		return fail()
	case reflect.Int, reflect.Int8, reflect.Int16, reflect.Int32, reflect.Int64:
		x, ok := v.(*Term)
		if !ok || !x.IsConst() {
			return fail()
		}
		return reflect.ValueOf(x.SVal()).Convert(t)
	case reflect.Uint, reflect.Uint8, reflect.Uint16, reflect.Uint32, reflect.Uint64:
		x, ok := v.(*Term)
		if !ok || !x.IsConst() {
			return fail()
		}
		return reflect.ValueOf(uint64(x.SVal())).Convert(t)
	case reflect.Slice:
		if t.Elem().Kind() != reflect.Uint8 {
			return fail()
		}
		sl, ok := v.(Slice)
		if !ok {
			return fail()
		}
		b := make([]byte, len(sl.V))
		for i, x := range sl.V {
			c, ok := x.(*Term)
			if !ok || !c.IsConst() {
				return fail()
			}
			b[i] = byte(c.SVal())
		}
		if sl.Nil {
			return reflect.Zero(t)
		}
		return reflect.ValueOf(b)
	case reflect.Array:
		if t.Elem().Kind() != reflect.Uint8 {
			return fail()
		}
		a, ok := v.(Array)
		if !ok || len(a) != t.Len() {
			return fail()
		}
		arr := reflect.New(t).Elem()
		for i, x := range a {
			c, ok := x.(*Term)
			if !ok || !c.IsConst() {
				return fail()
			}
			arr.Index(i).SetUint(uint64(byte(c.SVal())))
		}
		return arr
	case reflect.Struct:
		o, ok := v.(Opaque)
		if !ok || reflect.TypeOf(o.V) != t {
			return fail()
		}
		return reflect.ValueOf(o.V)
	}
	return fail()
}

func (e *Engine) fromGo(v reflect.Value, t types.Type, fn *ssa.Function) Value {
	switch v.Kind() {
	case reflect.String:
		return Str{S: v.String()}
	case reflect.Bool:
		return e.st.Bool(v.Bool())
	case reflect.Int, reflect.Int8, reflect.Int16, reflect.Int32, reflect.Int64:
		return e.st.Const(widthOfBasic(t.Underlying().(*types.Basic)), uint64(v.Int()))
	case reflect.Uint, reflect.Uint8, reflect.Uint16, reflect.Uint32, reflect.Uint64:
		return e.st.Const(widthOfBasic(t.Underlying().(*types.Basic)), v.Uint())
	case reflect.Slice:
		if v.Type().Elem().Kind() == reflect.Uint8 {
			if v.IsNil() {
				return Slice{Nil: true}
			}
			return e.bytesVal(v.Bytes())
		}
	case reflect.Array:
		if v.Type().Elem().Kind() == reflect.Uint8 {
			a := make(Array, v.Len())
			for i := range a {
				a[i] = e.st.Const(8, v.Index(i).Uint())
			}
			return a
		}
	case reflect.Struct:
		return Opaque{V: v.Interface()}
	case reflect.Interface:
		if v.IsNil() {
			return Iface{}
		}
		if err, ok := v.Interface().(error); ok {
			return e.newErrorIface("<" + err.Error() + ">")
		}
	}
	panic(unsupported(fmt.Sprintf("net/netip bridge: result of kind %s from %s", v.Kind(), fn.String())))
}
