// Package sym is a forking symbolic executor over go/ssa that emits SMT-LIB2
// (pure QF_BV + Bool, no arrays).
package sym

import (
	"fmt"
	"strings"
)

// Op is a term constructor.
type Op uint8

const (
	OpConst Op = iota // bit-vector constant (W>0) or Boolean constant (W==0)
	OpVar
	OpNot
	OpAnd
	OpOr
	OpIte
	OpEq
	OpAdd
	OpSub
	OpMul
	OpUDiv
	OpURem
	OpSDiv
	OpSRem
	OpBAnd
	OpBOr
	OpBXor
	OpShl
	OpLShr
	OpAShr
	OpNeg
	OpBNot
	OpULt
	OpULe
	OpSLt
	OpSLe
	OpZExt
	OpSExt
	OpExtract // A = hi, B = lo
	OpConcat
)

var opName = map[Op]string{
	OpNot: "not", OpAnd: "and", OpOr: "or", OpIte: "ite", OpEq: "=",
	OpAdd: "bvadd", OpSub: "bvsub", OpMul: "bvmul", OpUDiv: "bvudiv", OpURem: "bvurem",
	OpSDiv: "bvsdiv", OpSRem: "bvsrem", OpBAnd: "bvand", OpBOr: "bvor", OpBXor: "bvxor",
	OpShl: "bvshl", OpLShr: "bvlshr", OpAShr: "bvashr", OpNeg: "bvneg", OpBNot: "bvnot",
	OpULt: "bvult", OpULe: "bvule", OpSLt: "bvslt", OpSLe: "bvsle", OpConcat: "concat",
}

// Term is a hash-consed node. W == 0 means sort Bool, otherwise (_ BitVec W), W <= 64.
type Term struct {
	Op   Op
	W    int
	Args []*Term
	Val  uint64 // OpConst
	Name string // OpVar
	A, B int    // OpExtract hi/lo ; OpZExt/OpSExt extra bits in A
	ID   int
}

// Store hash-conses terms. One per engine run (global across paths so that
// variable names and node ids are stable between re-executions).
type Store struct {
	tab  map[string]*Term
	next int
	True *Term
	False *Term
}

func NewStore() *Store {
	s := &Store{tab: map[string]*Term{}}
	s.True = s.mk(&Term{Op: OpConst, W: 0, Val: 1})
	s.False = s.mk(&Term{Op: OpConst, W: 0, Val: 0})
	return s
}

func (s *Store) key(t *Term) string {
	var b strings.Builder
	fmt.Fprintf(&b, "%d/%d/%d/%s/%d/%d", t.Op, t.W, t.Val, t.Name, t.A, t.B)
	for _, a := range t.Args {
		fmt.Fprintf(&b, ",%d", a.ID)
	}
	return b.String()
}

func (s *Store) mk(t *Term) *Term {
	k := s.key(t)
	if e, ok := s.tab[k]; ok {
		return e
	}
	s.next++
	t.ID = s.next
	s.tab[k] = t
	return t
}

func mask(w int) uint64 {
	if w >= 64 {
		return ^uint64(0)
	}
	return (uint64(1) << uint(w)) - 1
}

func signExt(v uint64, w int) int64 {
	if w >= 64 {
		return int64(v)
	}
	sh := uint(64 - w)
	return int64(v<<sh) >> sh
}

func (t *Term) IsConst() bool { return t.Op == OpConst }
func (t *Term) IsBool() bool  { return t.W == 0 }
func (t *Term) IsTrue() bool  { return t.Op == OpConst && t.W == 0 && t.Val == 1 }
func (t *Term) IsFalse() bool { return t.Op == OpConst && t.W == 0 && t.Val == 0 }

// SVal returns the signed value of a constant.
func (t *Term) SVal() int64 { return signExt(t.Val, t.W) }

func (s *Store) Const(w int, v uint64) *Term {
	if w == 0 {
		if v != 0 {
			return s.True
		}
		return s.False
	}
	return s.mk(&Term{Op: OpConst, W: w, Val: v & mask(w)})
}

func (s *Store) Bool(b bool) *Term {
	if b {
		return s.True
	}
	return s.False
}

func (s *Store) Var(name string, w int) *Term {
	return s.mk(&Term{Op: OpVar, W: w, Name: name})
}

func (s *Store) Not(a *Term) *Term {
	if a.IsConst() {
		return s.Bool(a.Val == 0)
	}
	if a.Op == OpNot {
		return a.Args[0]
	}
	return s.mk(&Term{Op: OpNot, W: 0, Args: []*Term{a}})
}

func (s *Store) And(xs ...*Term) *Term {
	var out []*Term
	seen := map[int]bool{}
	for _, x := range xs {
		if x.IsFalse() {
			return s.False
		}
		if x.IsTrue() || seen[x.ID] {
			continue
		}
		if x.Op == OpAnd {
			for _, y := range x.Args {
				if !seen[y.ID] {
					seen[y.ID] = true
					out = append(out, y)
				}
			}
			continue
		}
		seen[x.ID] = true
		out = append(out, x)
	}
	for _, x := range out {
		if x.Op == OpNot && seen[x.Args[0].ID] {
			return s.False
		}
	}
	switch len(out) {
	case 0:
		return s.True
	case 1:
		return out[0]
	}
	return s.mk(&Term{Op: OpAnd, W: 0, Args: out})
}

func (s *Store) Or(xs ...*Term) *Term {
	var out []*Term
	seen := map[int]bool{}
	for _, x := range xs {
		if x.IsTrue() {
			return s.True
		}
		if x.IsFalse() || seen[x.ID] {
			continue
		}
		if x.Op == OpOr {
			for _, y := range x.Args {
				if !seen[y.ID] {
					seen[y.ID] = true
					out = append(out, y)
				}
			}
			continue
		}
		seen[x.ID] = true
		out = append(out, x)
	}
	for _, x := range out {
		if x.Op == OpNot && seen[x.Args[0].ID] {
			return s.True
		}
	}
	switch len(out) {
	case 0:
		return s.False
	case 1:
		return out[0]
	}
	return s.mk(&Term{Op: OpOr, W: 0, Args: out})
}

func (s *Store) Implies(a, b *Term) *Term { return s.Or(s.Not(a), b) }

func (s *Store) Ite(c, a, b *Term) *Term {
	if c.IsTrue() {
		return a
	}
	if c.IsFalse() {
		return b
	}
	if a == b {
		return a
	}
	if a.W == 0 {
		if a.IsTrue() && b.IsFalse() {
			return c
		}
		if a.IsFalse() && b.IsTrue() {
			return s.Not(c)
		}
	}
	return s.mk(&Term{Op: OpIte, W: a.W, Args: []*Term{c, a, b}})
}

func (s *Store) Eq(a, b *Term) *Term {
	if a == b {
		return s.True
	}
	if a.W != b.W {
		panic(fmt.Sprintf("Eq: width mismatch %d vs %d", a.W, b.W))
	}
	if a.IsConst() && b.IsConst() {
		return s.Bool(a.Val == b.Val)
	}
	if a.W == 0 {
		if a.IsConst() {
			a, b = b, a
		}
		if b.IsTrue() {
			return a
		}
		if b.IsFalse() {
			return s.Not(a)
		}
	}
	if a.ID > b.ID {
		a, b = b, a
	}
	return s.mk(&Term{Op: OpEq, W: 0, Args: []*Term{a, b}})
}

// Bin builds a binary bit-vector operation with constant folding.
func (s *Store) Bin(op Op, a, b *Term) *Term {
	if a.W != b.W {
		panic(fmt.Sprintf("Bin %s: width mismatch %d vs %d", opName[op], a.W, b.W))
	}
	w := a.W
	if a.IsConst() && b.IsConst() {
		x, y := a.Val, b.Val
		sx, sy := signExt(x, w), signExt(y, w)
		switch op {
		case OpAdd:
			return s.Const(w, x+y)
		case OpSub:
			return s.Const(w, x-y)
		case OpMul:
			return s.Const(w, x*y)
		case OpUDiv:
			if y == 0 {
				return s.Const(w, mask(w))
			}
			return s.Const(w, x/y)
		case OpURem:
			if y == 0 {
				return s.Const(w, x)
			}
			return s.Const(w, x%y)
		case OpSDiv:
			if y == 0 {
				if sx < 0 {
					return s.Const(w, 1)
				}
				return s.Const(w, mask(w))
			}
			if sy == -1 {
				return s.Const(w, uint64(-sx))
			}
			return s.Const(w, uint64(sx/sy))
		case OpSRem:
			if y == 0 {
				return s.Const(w, x)
			}
			if sy == -1 {
				return s.Const(w, 0)
			}
			return s.Const(w, uint64(sx%sy))
		case OpBAnd:
			return s.Const(w, x&y)
		case OpBOr:
			return s.Const(w, x|y)
		case OpBXor:
			return s.Const(w, x^y)
		case OpShl:
			if y >= uint64(w) {
				return s.Const(w, 0)
			}
			return s.Const(w, x<<y)
		case OpLShr:
			if y >= uint64(w) {
				return s.Const(w, 0)
			}
			return s.Const(w, x>>y)
		case OpAShr:
			if y >= uint64(w) {
				y = uint64(w - 1)
			}
			return s.Const(w, uint64(sx>>y))
		}
	}
	// light algebraic simplification
	switch op {
	case OpAdd:
		if a.IsConst() && a.Val == 0 {
			return b
		}
		if b.IsConst() && b.Val == 0 {
			return a
		}
		if a.IsConst() { // constants to the right
			a, b = b, a
		}
		// (x + c1) + c2
		if b.IsConst() && a.Op == OpAdd && a.Args[1].IsConst() {
			return s.Bin(OpAdd, a.Args[0], s.Const(w, a.Args[1].Val+b.Val))
		}
	case OpSub:
		if b.IsConst() && b.Val == 0 {
			return a
		}
		if a == b {
			return s.Const(w, 0)
		}
		if b.IsConst() {
			return s.Bin(OpAdd, a, s.Const(w, -b.Val))
		}
	case OpMul:
		if a.IsConst() {
			a, b = b, a
		}
		if b.IsConst() && b.Val == 1 {
			return a
		}
		if b.IsConst() && b.Val == 0 {
			return b
		}
	case OpBAnd:
		if a == b {
			return a
		}
		if b.IsConst() && b.Val == 0 || a.IsConst() && a.Val == 0 {
			return s.Const(w, 0)
		}
		if b.IsConst() && b.Val == mask(w) {
			return a
		}
		if a.IsConst() && a.Val == mask(w) {
			return b
		}
	case OpBOr, OpBXor:
		if b.IsConst() && b.Val == 0 {
			return a
		}
		if a.IsConst() && a.Val == 0 {
			return b
		}
	case OpShl, OpLShr, OpAShr:
		if b.IsConst() && b.Val == 0 {
			return a
		}
	case OpUDiv, OpSDiv:
		if b.IsConst() && b.Val == 1 {
			return a
		}
	}
	return s.mk(&Term{Op: op, W: w, Args: []*Term{a, b}})
}

func (s *Store) Cmp(op Op, a, b *Term) *Term {
	if a.W != b.W {
		panic(fmt.Sprintf("Cmp %s: width mismatch %d vs %d", opName[op], a.W, b.W))
	}
	if a.IsConst() && b.IsConst() {
		switch op {
		case OpULt:
			return s.Bool(a.Val < b.Val)
		case OpULe:
			return s.Bool(a.Val <= b.Val)
		case OpSLt:
			return s.Bool(a.SVal() < b.SVal())
		case OpSLe:
			return s.Bool(a.SVal() <= b.SVal())
		}
	}
	if a == b {
		return s.Bool(op == OpULe || op == OpSLe)
	}
	return s.mk(&Term{Op: op, W: 0, Args: []*Term{a, b}})
}

func (s *Store) Neg(a *Term) *Term {
	if a.IsConst() {
		return s.Const(a.W, -a.Val)
	}
	return s.mk(&Term{Op: OpNeg, W: a.W, Args: []*Term{a}})
}

func (s *Store) BNot(a *Term) *Term {
	if a.IsConst() {
		return s.Const(a.W, ^a.Val)
	}
	return s.mk(&Term{Op: OpBNot, W: a.W, Args: []*Term{a}})
}

// Resize converts a to width w with zero/sign extension or truncation.
func (s *Store) Resize(a *Term, w int, signed bool) *Term {
	if a.W == w {
		return a
	}
	if a.W == 0 {
		panic("Resize of Bool")
	}
	if w < a.W {
		if a.IsConst() {
			return s.Const(w, a.Val)
		}
		// truncating an extension of something narrower or equal
		if (a.Op == OpZExt || a.Op == OpSExt) && a.Args[0].W >= w {
			return s.Resize(a.Args[0], w, signed)
		}
		return s.mk(&Term{Op: OpExtract, W: w, Args: []*Term{a}, A: w - 1, B: 0})
	}
	if a.IsConst() {
		if signed {
			return s.Const(w, uint64(a.SVal()))
		}
		return s.Const(w, a.Val)
	}
	op := OpZExt
	if signed {
		op = OpSExt
	}
	return s.mk(&Term{Op: op, W: w, Args: []*Term{a}, A: w - a.W})
}

// Extract bits hi..lo.
func (s *Store) Extract(a *Term, hi, lo int) *Term {
	w := hi - lo + 1
	if a.IsConst() {
		return s.Const(w, a.Val>>uint(lo))
	}
	if lo == 0 && w == a.W {
		return a
	}
	return s.mk(&Term{Op: OpExtract, W: w, Args: []*Term{a}, A: hi, B: lo})
}

// BoolToBV gives 1/0 of width w.
func (s *Store) BoolToBV(c *Term, w int) *Term {
	return s.Ite(c, s.Const(w, 1), s.Const(w, 0))
}

// ---------------------------------------------------------------- printing

func sortStr(w int) string {
	if w == 0 {
		return "Bool"
	}
	return fmt.Sprintf("(_ BitVec %d)", w)
}

func constStr(t *Term) string {
	if t.W == 0 {
		if t.Val != 0 {
			return "true"
		}
		return "false"
	}
	if t.W%4 == 0 {
		return fmt.Sprintf("#x%0*x", t.W/4, t.Val)
	}
	return fmt.Sprintf("#b%0*b", t.W, t.Val)
}

// ref is how a node is referred to once it has been defined.
func ref(t *Term) string {
	switch t.Op {
	case OpConst:
		return constStr(t)
	case OpVar:
		return "|" + t.Name + "|"
	}
	return fmt.Sprintf("n%d", t.ID)
}

// body prints one node in terms of refs of its children.
func body(t *Term) string {
	var b strings.Builder
	switch t.Op {
	case OpZExt:
		fmt.Fprintf(&b, "((_ zero_extend %d) %s)", t.A, ref(t.Args[0]))
	case OpSExt:
		fmt.Fprintf(&b, "((_ sign_extend %d) %s)", t.A, ref(t.Args[0]))
	case OpExtract:
		fmt.Fprintf(&b, "((_ extract %d %d) %s)", t.A, t.B, ref(t.Args[0]))
	default:
		b.WriteString("(")
		b.WriteString(opName[t.Op])
		for _, a := range t.Args {
			b.WriteString(" ")
			b.WriteString(ref(a))
		}
		b.WriteString(")")
	}
	return b.String()
}

// String prints a term as a tree (debugging / evidence samples; truncated).
func (t *Term) String() string {
	var b strings.Builder
	t.str(&b, 0)
	s := b.String()
	if len(s) > 400 {
		s = s[:400] + "…"
	}
	return s
}

func (t *Term) str(b *strings.Builder, depth int) {
	if b.Len() > 500 {
		return
	}
	switch t.Op {
	case OpConst:
		if t.W == 0 {
			b.WriteString(constStr(t))
		} else {
			fmt.Fprintf(b, "%d", t.SVal())
		}
		return
	case OpVar:
		b.WriteString(t.Name)
		return
	case OpZExt, OpSExt:
		if t.Op == OpZExt {
			b.WriteString("(zext ")
		} else {
			b.WriteString("(sext ")
		}
		t.Args[0].str(b, depth+1)
		b.WriteString(")")
		return
	case OpExtract:
		fmt.Fprintf(b, "(extract[%d:%d] ", t.A, t.B)
		t.Args[0].str(b, depth+1)
		b.WriteString(")")
		return
	}
	b.WriteString("(")
	b.WriteString(opName[t.Op])
	for _, a := range t.Args {
		b.WriteString(" ")
		a.str(b, depth+1)
	}
	b.WriteString(")")
}

// Eval evaluates a term under a model (variable name -> value). Missing
// variables evaluate to 0. Used to double check models and for concrete mode.
func (s *Store) Eval(t *Term, m map[string]uint64, memo map[int]uint64) uint64 {
	if t.Op == OpConst {
		return t.Val
	}
	if v, ok := memo[t.ID]; ok {
		return v
	}
	var r uint64
	switch t.Op {
	case OpVar:
		r = m[t.Name] & mask(t.W)
		if t.W == 0 {
			r = m[t.Name] & 1
		}
	case OpNot:
		r = 1 - s.Eval(t.Args[0], m, memo)
	case OpAnd:
		r = 1
		for _, a := range t.Args {
			if s.Eval(a, m, memo) == 0 {
				r = 0
				break
			}
		}
	case OpOr:
		r = 0
		for _, a := range t.Args {
			if s.Eval(a, m, memo) != 0 {
				r = 1
				break
			}
		}
	case OpIte:
		if s.Eval(t.Args[0], m, memo) != 0 {
			r = s.Eval(t.Args[1], m, memo)
		} else {
			r = s.Eval(t.Args[2], m, memo)
		}
	case OpEq:
		if s.Eval(t.Args[0], m, memo) == s.Eval(t.Args[1], m, memo) {
			r = 1
		}
	case OpULt, OpULe, OpSLt, OpSLe:
		a := s.Const(t.Args[0].W, s.Eval(t.Args[0], m, memo))
		b := s.Const(t.Args[1].W, s.Eval(t.Args[1], m, memo))
		r = s.Cmp(t.Op, a, b).Val
	case OpNeg:
		r = (-s.Eval(t.Args[0], m, memo)) & mask(t.W)
	case OpBNot:
		r = (^s.Eval(t.Args[0], m, memo)) & mask(t.W)
	case OpZExt:
		r = s.Eval(t.Args[0], m, memo)
	case OpSExt:
		r = uint64(signExt(s.Eval(t.Args[0], m, memo), t.Args[0].W)) & mask(t.W)
	case OpExtract:
		r = (s.Eval(t.Args[0], m, memo) >> uint(t.B)) & mask(t.W)
	case OpConcat:
		r = (s.Eval(t.Args[0], m, memo)<<uint(t.Args[1].W) | s.Eval(t.Args[1], m, memo)) & mask(t.W)
	default:
		a := s.Const(t.W, s.Eval(t.Args[0], m, memo))
		b := s.Const(t.W, s.Eval(t.Args[1], m, memo))
		r = s.Bin(t.Op, a, b).Val
	}
	memo[t.ID] = r
	return r
}

// Vars collects the variables of a term.
func (t *Term) Vars(seen map[int]bool, out map[string]*Term) {
	if seen[t.ID] {
		return
	}
	seen[t.ID] = true
	if t.Op == OpVar {
		out[t.Name] = t
		return
	}
	for _, a := range t.Args {
		a.Vars(seen, out)
	}
}
