package sym

import (
	"bufio"
	"context"
	"fmt"
	"io"
	"os"
	"os/exec"
	"sort"
	"strconv"
	"strings"
	"sync"
	"time"
)

type Result int

const (
	Unknown Result = iota
	Sat
	Unsat
)

func (r Result) String() string {
	switch r {
	case Sat:
		return "sat"
	case Unsat:
		return "unsat"
	}
	return "unknown"
}

// Backend describes one way of running a solver.
type Backend struct {
	Name string
	Argv []string // one-shot invocation reading the script from stdin
	Inc  []string // incremental invocation (persistent), nil if unsupported
}

var Backends = []Backend{
	{Name: "z3-new", Argv: []string{"z3-new", "-in"}, Inc: []string{"z3-new", "-in"}},
	{Name: "z3", Argv: []string{"z3", "-in"}, Inc: []string{"z3", "-in"}},
	{Name: "cvc5", Argv: []string{"cvc5", "--lang=smt2", "--produce-models"}, Inc: []string{"cvc5", "--lang=smt2", "--incremental", "--produce-models"}},
	{Name: "cvc5-int", Argv: []string{"cvc5", "--lang=smt2", "--produce-models", "--solve-bv-as-int=sum"}, Inc: []string{"cvc5", "--lang=smt2", "--incremental", "--produce-models", "--solve-bv-as-int=sum"}},
}

func BackendByName(n string) *Backend {
	for i := range Backends {
		if Backends[i].Name == n {
			return &Backends[i]
		}
	}
	return nil
}

// SolverStats accumulates per-backend counters (shared between solver instances).
type SolverStats struct {
	mu      sync.Mutex
	Queries map[string]int     // kind/verdict -> count
	Seconds map[string]float64 // backend -> seconds
	Errors  []string
}

func NewSolverStats() *SolverStats {
	return &SolverStats{Queries: map[string]int{}, Seconds: map[string]float64{}}
}

func (st *SolverStats) add(kind string, r Result, backend string, d time.Duration) {
	st.mu.Lock()
	st.Queries[kind+"/"+r.String()]++
	st.Seconds[backend] += d.Seconds()
	st.mu.Unlock()
}

var dbgLog *os.File

func init() {
	if p := os.Getenv("SYMGO_SMTLOG"); p != "" {
		dbgLog, _ = os.Create(p)
	}
}

// Solver is a persistent incremental solver process plus a mirror of its
// assertion stack (so that it can be restarted and so that any query can be
// dumped as a stand-alone script for the portfolio).
type Solver struct {
	st      *Store
	be      *Backend
	stats   *SolverStats
	cmd     *exec.Cmd
	in      io.WriteCloser
	out     *bufio.Reader
	timeout time.Duration // per check-sat

	levels [][]*Term      // assertions per push level (level 0 = base)
	defd   []map[int]bool // node ids defined at each level
	vars   []map[string]*Term
	dead   bool
}

func NewSolver(st *Store, be *Backend, stats *SolverStats, timeout time.Duration) (*Solver, error) {
	s := &Solver{st: st, be: be, stats: stats, timeout: timeout}
	s.levels = [][]*Term{nil}
	s.defd = []map[int]bool{{}}
	s.vars = []map[string]*Term{{}}
	if err := s.start(); err != nil {
		return nil, err
	}
	return s, nil
}

func (s *Solver) start() error {
	argv := append([]string{}, s.be.Inc...)
	if strings.HasPrefix(s.be.Name, "cvc5") {
		argv = append(argv, fmt.Sprintf("--tlimit-per=%d", s.timeout.Milliseconds()))
	} else {
		argv = append(argv, "-memory:6000")
	}
	s.cmd = exec.Command(argv[0], argv[1:]...)
	in, err := s.cmd.StdinPipe()
	if err != nil {
		return err
	}
	out, err := s.cmd.StdoutPipe()
	if err != nil {
		return err
	}
	s.cmd.Stderr = s.cmd.Stdout
	if err := s.cmd.Start(); err != nil {
		return err
	}
	s.in = in
	s.out = bufio.NewReaderSize(out, 1<<20)
	s.dead = false
	s.send("(set-option :print-success false)\n(set-option :produce-models true)\n")
	if strings.HasPrefix(s.be.Name, "z3") {
		s.send(fmt.Sprintf("(set-option :timeout %d)\n", s.timeout.Milliseconds()))
	} else {
		s.send("(set-logic ALL)\n")
	}
	return nil
}

func (s *Solver) Close() {
	if s.cmd != nil && s.cmd.Process != nil {
		s.in.Close()
		s.cmd.Process.Kill()
		s.cmd.Wait()
	}
	s.cmd = nil
}

func (s *Solver) send(txt string) {
	if s.dead {
		return
	}
	if dbgLog != nil {
		dbgLog.WriteString(txt)
	}
	if _, err := io.WriteString(s.in, txt); err != nil {
		s.dead = true
	}
}

// restart kills the process and replays the mirrored stack.
func (s *Solver) restart() {
	s.Close()
	if err := s.start(); err != nil {
		s.dead = true
		return
	}
	lv := s.levels
	s.levels = [][]*Term{nil}
	s.defd = []map[int]bool{{}}
	s.vars = []map[string]*Term{{}}
	for i, l := range lv {
		if i > 0 {
			s.Push()
		}
		for _, t := range l {
			s.Assert(t)
		}
	}
}

func (s *Solver) Depth() int { return len(s.levels) - 1 }

func (s *Solver) Push() {
	s.send("(push 1)\n")
	s.levels = append(s.levels, nil)
	s.defd = append(s.defd, map[int]bool{})
	s.vars = append(s.vars, map[string]*Term{})
}

func (s *Solver) Pop() {
	if len(s.levels) <= 1 {
		panic("solver: pop at base level")
	}
	s.send("(pop 1)\n")
	s.levels = s.levels[:len(s.levels)-1]
	s.defd = s.defd[:len(s.defd)-1]
	s.vars = s.vars[:len(s.vars)-1]
}

// PopTo pops until the depth is d.
func (s *Solver) PopTo(d int) {
	for s.Depth() > d {
		s.Pop()
	}
}

func (s *Solver) isDefined(id int) bool {
	for _, m := range s.defd {
		if m[id] {
			return true
		}
	}
	return false
}

func (s *Solver) isDeclared(name string) bool {
	for _, m := range s.vars {
		if _, ok := m[name]; ok {
			return true
		}
	}
	return false
}

// define emits declarations/definitions for every node under t not yet known
// at the current scope.
func (s *Solver) define(t *Term, b *strings.Builder) {
	switch t.Op {
	case OpConst:
		return
	case OpVar:
		if !s.isDeclared(t.Name) {
			fmt.Fprintf(b, "(declare-const |%s| %s)\n", t.Name, sortStr(t.W))
			s.vars[len(s.vars)-1][t.Name] = t
		}
		return
	}
	if s.isDefined(t.ID) {
		return
	}
	// iterative post-order to avoid deep recursion on long chains
	type frame struct {
		t *Term
		i int
	}
	stack := []frame{{t, 0}}
	for len(stack) > 0 {
		f := &stack[len(stack)-1]
		if f.i < len(f.t.Args) {
			c := f.t.Args[f.i]
			f.i++
			if c.Op == OpConst {
				continue
			}
			if c.Op == OpVar {
				if !s.isDeclared(c.Name) {
					fmt.Fprintf(b, "(declare-const |%s| %s)\n", c.Name, sortStr(c.W))
					s.vars[len(s.vars)-1][c.Name] = c
				}
				continue
			}
			if s.isDefined(c.ID) {
				continue
			}
			stack = append(stack, frame{c, 0})
			continue
		}
		n := f.t
		stack = stack[:len(stack)-1]
		if !s.isDefined(n.ID) {
			fmt.Fprintf(b, "(define-fun n%d () %s %s)\n", n.ID, sortStr(n.W), body(n))
			s.defd[len(s.defd)-1][n.ID] = true
		}
	}
}

func (s *Solver) Assert(t *Term) {
	if t.IsTrue() {
		return
	}
	var b strings.Builder
	s.define(t, &b)
	fmt.Fprintf(&b, "(assert %s)\n", ref(t))
	s.send(b.String())
	s.levels[len(s.levels)-1] = append(s.levels[len(s.levels)-1], t)
}

// readLine reads one line of solver output with a Go-side deadline.
func (s *Solver) readLine(d time.Duration) (string, bool) {
	type res struct {
		s   string
		err error
	}
	ch := make(chan res, 1)
	go func() {
		l, err := s.out.ReadString('\n')
		ch <- res{l, err}
	}()
	select {
	case r := <-ch:
		if r.err != nil {
			s.dead = true
			return "", false
		}
		if dbgLog != nil {
			dbgLog.WriteString("; <- " + strings.TrimSpace(r.s) + "\n")
		}
		return strings.TrimSpace(r.s), true
	case <-time.After(d):
		return "", false
	}
}

// Check runs (check-sat) on the current stack.
func (s *Solver) Check(kind string) Result {
	t0 := time.Now()
	r := s.check()
	s.stats.add(kind, r, s.be.Name, time.Since(t0))
	return r
}

func (s *Solver) check() Result {
	if s.dead {
		s.restart()
		if s.dead {
			return Unknown
		}
	}
	s.send("(check-sat)\n")
	for {
		line, ok := s.readLine(s.timeout + 5*time.Second)
		if !ok {
			// hung or died: restart to get a clean process
			s.restart()
			return Unknown
		}
		switch {
		case line == "sat":
			return Sat
		case line == "unsat":
			return Unsat
		case line == "unknown" || line == "timeout":
			// after a timeout the incremental state of the solver is not trusted
			// (z3 can report "push canceled" and lose track of its scopes, which
			// would turn later answers into garbage): start a fresh process and
			// replay the mirrored assertion stack
			s.restart()
			return Unknown
		case strings.HasPrefix(line, "(error"):
			s.stats.mu.Lock()
			if len(s.stats.Errors) < 20 {
				s.stats.Errors = append(s.stats.Errors, s.be.Name+": "+line)
			}
			s.stats.mu.Unlock()
			// an error poisons the answer and the process state
			s.restart()
			return Unknown
		case line == "":
			continue
		default:
			// warnings etc.
			continue
		}
	}
}

// AllVars returns every variable declared in the current scope.
func (s *Solver) AllVars() []*Term {
	var out []*Term
	for _, m := range s.vars {
		for _, v := range m {
			out = append(out, v)
		}
	}
	sort.Slice(out, func(i, j int) bool { return out[i].ID < out[j].ID })
	return out
}

// Model fetches values of all declared variables after a Sat answer.
func (s *Solver) Model() map[string]uint64 {
	vs := s.AllVars()
	m := map[string]uint64{}
	if len(vs) == 0 {
		return m
	}
	var b strings.Builder
	b.WriteString("(get-value (")
	for _, v := range vs {
		b.WriteString(ref(v))
		b.WriteString(" ")
	}
	b.WriteString("))\n")
	s.send(b.String())
	txt := s.readSexp()
	parseModel(txt, m)
	return m
}

func (s *Solver) readSexp() string {
	var b strings.Builder
	depth := 0
	started := false
	for {
		line, ok := s.readLine(s.timeout + 5*time.Second)
		if !ok {
			return b.String()
		}
		b.WriteString(line)
		b.WriteString(" ")
		inBar := false
		for _, c := range line {
			switch {
			case c == '|':
				inBar = !inBar
			case inBar:
			case c == '(':
				depth++
				started = true
			case c == ')':
				depth--
			}
		}
		if started && depth <= 0 {
			return b.String()
		}
	}
}

// parseModel parses ((a #x01) (|b c| true) (c (_ bv5 8))) into m. Symbol
// names may or may not be printed with bars.
func parseModel(txt string, m map[string]uint64) {
	// tokenise
	var toks []string
	i, n := 0, len(txt)
	for i < n {
		c := txt[i]
		switch {
		case c == ' ' || c == '\n' || c == '\t' || c == '\r':
			i++
		case c == '(' || c == ')':
			toks = append(toks, string(c))
			i++
		case c == '|':
			j := strings.IndexByte(txt[i+1:], '|')
			if j < 0 {
				return
			}
			toks = append(toks, txt[i+1:i+1+j])
			i += j + 2
		default:
			j := i
			for j < n && txt[j] != ' ' && txt[j] != '(' && txt[j] != ')' && txt[j] != '\n' && txt[j] != '\t' && txt[j] != '\r' {
				j++
			}
			toks = append(toks, txt[i:j])
			i = j
		}
	}
	val := func(t string) (uint64, bool) {
		switch {
		case strings.HasPrefix(t, "#x"):
			v, err := strconv.ParseUint(t[2:], 16, 64)
			return v, err == nil
		case strings.HasPrefix(t, "#b"):
			v, err := strconv.ParseUint(t[2:], 2, 64)
			return v, err == nil
		case t == "true":
			return 1, true
		case t == "false":
			return 0, true
		}
		return 0, false
	}
	// pairs: "(" name value ")" where value is an atom or "( _ bvN W )"
	for k := 0; k+3 < len(toks); k++ {
		if toks[k] != "(" || toks[k+1] == "(" || toks[k+1] == ")" {
			continue
		}
		name := toks[k+1]
		if v, ok := val(toks[k+2]); ok && toks[k+3] == ")" {
			m[name] = v
			continue
		}
		if toks[k+2] == "(" && k+6 < len(toks) && toks[k+3] == "_" && strings.HasPrefix(toks[k+4], "bv") {
			if v, err := strconv.ParseUint(toks[k+4][2:], 10, 64); err == nil {
				m[name] = v
			}
		}
	}
}

func isHex(c byte) bool {
	return c >= '0' && c <= '9' || c >= 'a' && c <= 'f' || c >= 'A' && c <= 'F'
}

// Script renders the whole current stack plus extra assertions as a
// stand-alone SMT-LIB2 script ending in (check-sat) and a (get-value).
func (s *Solver) Script(extra []*Term, withModel bool) string {
	var all []*Term
	for _, l := range s.levels {
		all = append(all, l...)
	}
	all = append(all, extra...)
	return RenderScript(all, withModel)
}

// RenderScript prints a self-contained script for the conjunction of ts.
func RenderScript(ts []*Term, withModel bool) string {
	var b strings.Builder
	b.WriteString("(set-option :produce-models true)\n(set-logic ALL)\n")
	defd := map[int]bool{}
	vars := map[string]*Term{}
	var order []*Term
	var walk func(t *Term)
	walk = func(t *Term) {
		// iterative
		type frame struct {
			t *Term
			i int
		}
		stack := []frame{{t, 0}}
		for len(stack) > 0 {
			f := &stack[len(stack)-1]
			if f.t.Op == OpConst {
				stack = stack[:len(stack)-1]
				continue
			}
			if f.t.Op == OpVar {
				if _, ok := vars[f.t.Name]; !ok {
					vars[f.t.Name] = f.t
					order = append(order, f.t)
				}
				stack = stack[:len(stack)-1]
				continue
			}
			if defd[f.t.ID] {
				stack = stack[:len(stack)-1]
				continue
			}
			if f.i < len(f.t.Args) {
				c := f.t.Args[f.i]
				f.i++
				stack = append(stack, frame{c, 0})
				continue
			}
			defd[f.t.ID] = true
			order = append(order, f.t)
			stack = stack[:len(stack)-1]
		}
	}
	for _, t := range ts {
		walk(t)
	}
	for _, t := range order {
		if t.Op == OpVar {
			fmt.Fprintf(&b, "(declare-const |%s| %s)\n", t.Name, sortStr(t.W))
		} else {
			fmt.Fprintf(&b, "(define-fun n%d () %s %s)\n", t.ID, sortStr(t.W), body(t))
		}
	}
	for _, t := range ts {
		fmt.Fprintf(&b, "(assert %s)\n", ref(t))
	}
	b.WriteString("(check-sat)\n")
	if withModel && len(vars) > 0 {
		b.WriteString("(get-value (")
		names := make([]string, 0, len(vars))
		for n := range vars {
			names = append(names, n)
		}
		sort.Strings(names)
		for _, n := range names {
			b.WriteString("|" + n + "| ")
		}
		b.WriteString("))\n")
	}
	return b.String()
}

// OneShot runs a script on a backend with a wall-clock cap.
func OneShot(ctx context.Context, be *Backend, script string, cap time.Duration, stats *SolverStats, kind string) (Result, map[string]uint64) {
	ctx2, cancel := context.WithTimeout(ctx, cap)
	defer cancel()
	argv := append([]string{}, be.Argv...)
	if strings.HasPrefix(be.Name, "z3") {
		argv = append(argv, fmt.Sprintf("-T:%d", int(cap.Seconds())+1), "-memory:6000")
	} else {
		argv = append(argv, fmt.Sprintf("--tlimit=%d", cap.Milliseconds()))
	}
	cmd := exec.CommandContext(ctx2, argv[0], argv[1:]...)
	cmd.Stdin = strings.NewReader(script)
	t0 := time.Now()
	out, _ := cmd.CombinedOutput()
	txt := string(out)
	r := Unknown
	// the verdict is the first sat/unsat line; an (error before it poisons
	// the answer, an (error after it (get-value after unsat) is irrelevant
	for _, line := range strings.Split(txt, "\n") {
		line = strings.TrimSpace(line)
		if line == "sat" {
			r = Sat
			break
		}
		if line == "unsat" {
			r = Unsat
			break
		}
		if strings.HasPrefix(line, "(error") {
			stats.mu.Lock()
			if len(stats.Errors) < 20 {
				stats.Errors = append(stats.Errors, be.Name+": "+line)
			}
			stats.mu.Unlock()
			break
		}
	}
	stats.add(kind, r, be.Name, time.Since(t0))
	var m map[string]uint64
	if r == Sat {
		m = map[string]uint64{}
		if i := strings.Index(txt, "(("); i >= 0 {
			parseModel(txt[i:], m)
		}
	}
	return r, m
}

// Portfolio races every backend on a script; first definite answer wins.
// With crossCheck it waits for a second definite answer (or the cap) and
// reports disagreement.
func Portfolio(script string, cap time.Duration, stats *SolverStats, kind string, names []string, crossCheck bool) (Result, map[string]uint64, string, bool) {
	ctx, cancel := context.WithCancel(context.Background())
	defer cancel()
	type ans struct {
		r  Result
		m  map[string]uint64
		be string
	}
	ch := make(chan ans, len(names))
	n := 0
	for _, nm := range names {
		be := BackendByName(nm)
		if be == nil {
			continue
		}
		n++
		go func(be *Backend) {
			r, m := OneShot(ctx, be, script, cap, stats, kind)
			ch <- ans{r, m, be.Name}
		}(be)
	}
	var first *ans
	disagree := false
	for i := 0; i < n; i++ {
		a := <-ch
		if a.r == Unknown {
			continue
		}
		if first == nil {
			aa := a
			first = &aa
			if !crossCheck {
				break
			}
			continue
		}
		if a.r != first.r {
			disagree = true
		}
		break
	}
	if first == nil {
		return Unknown, nil, "", false
	}
	return first.r, first.m, first.be, disagree
}
