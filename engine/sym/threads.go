package sym

import (
	"fmt"
	"golang.org/x/tools/go/ssa"
	"sort"
	"strings"
	"sync"
)

// Thread layer: every simulated goroutine runs in a real goroutine, but only
// the one holding the baton executes. Yield points are lock acquisitions,
// atomics, sync.Map operations, WaitGroup operations, thread start and exit.
// The scheduler's choice at a yield is a decision of the exploration
// (bounded by a pre-emption budget).

const maxThreads = 8

type vclock [maxThreads]int

func (a *vclock) join(b *vclock) {
	for i := range a {
		if b[i] > a[i] {
			a[i] = b[i]
		}
	}
}

type thread struct {
	id      int
	wake    chan struct{}
	done    bool
	blocked func() bool // non-nil: thread is parked until this returns true
	site    string
	vc      vclock
	fn      Value
	args    []Value
	native  func()
	daemon  bool // parked on a channel that may never become ready (ticker loops)
	wants   *Value // the mutex the thread is about to lock (parked at the scheduling point before Lock / RLock)
	wantsW  bool
}

type msgKind int

const (
	msgYield msgKind = iota
	msgDone
	msgAbort
)

type schedMsg struct {
	kind msgKind
	pan  interface{}
}

type threads struct {
	all      []*thread
	cur      *thread
	toSched  chan schedMsg
	kill     chan struct{}
	killed   bool
	preempts int
	wg       sync.WaitGroup
}

type mutexState struct {
	writer  *thread
	readers map[*thread]int
	vc      vclock // released by Unlock (writers); acquired by Lock and RLock
	rvc     vclock // released by RUnlock (readers); acquired by Lock only - readers do not synchronise with each other
	site    string
}

type wgState struct {
	n       int
	vc      vclock
	waiting int
}

type shadow struct {
	wTid     int
	wClk     int
	wAtomic  bool
	wSite    string
	hasW     bool
	reported bool
	reads    map[int]readRec
	svc      vclock // release clock for atomic accesses
}

type readRec struct {
	clk    int
	atomic bool
	site   string
}

func (e *Engine) runThreaded(native func()) {
	ts := &threads{toSched: make(chan schedMsg), kill: make(chan struct{})}
	e.th = ts
	e.shadow = map[*Value]*shadow{}
	main := &thread{id: 0, wake: make(chan struct{}), native: native}
	main.vc[0] = 1
	ts.all = append(ts.all, main)
	e.startThread(main)
	e.schedule()
	e.killThreads()
}

func (e *Engine) startThread(t *thread) {
	ts := e.th
	ts.wg.Add(1)
	go func() {
		defer ts.wg.Done()
		select {
		case <-t.wake:
		case <-ts.kill:
			return
		}
		defer func() {
			r := recover()
			t.done = true
			if as, ok := r.(*abortSignal); ok && as.kind == abortKilled {
				return
			}
			m := schedMsg{kind: msgDone}
			if r != nil {
				// includes an unrecovered Go panic in a spawned goroutine (crashes the process)
				m = schedMsg{kind: msgAbort, pan: r}
			}
			select {
			case ts.toSched <- m:
			case <-ts.kill:
			}
		}()
		if t.native != nil {
			t.native()
		} else {
			e.callValue(nil, t.fn, t.args)
		}
	}()
}

// schedule is the scheduler loop; it runs on the path's own goroutine.
func (e *Engine) schedule() {
	ts := e.th
	var cur *thread
	for {
		// enabled threads
		var en []*thread
		unfinished := 0
		for _, t := range ts.all {
			if t.done {
				continue
			}
			unfinished++
			if t.blocked == nil || t.blocked() {
				en = append(en, t)
			}
		}
		if unfinished == 0 {
			return
		}
		// the path ends when the main thread is done (like a Go program)
		if ts.all[0].done {
			return
		}
		if len(en) == 0 {
			var sites []string
			for _, t := range ts.all {
				if !t.done {
					sites = append(sites, t.site)
				}
			}
			allDaemon := true
			for _, t := range ts.all {
				if !t.done && !t.daemon {
					allDaemon = false
				}
			}
			if allDaemon && ts.all[0].done {
				return
			}
			if e.fireTimer() {
				continue
			}
			sort.Strings(sites)
			e.reportEvent("deadlock", "deadlock: "+strings.Join(sites, " | "), "all unfinished threads are blocked")
			panic(&abortSignal{kind: abortViolation})
		}
		var next *thread
		curEnabled := false
		for _, t := range en {
			if t == cur {
				curEnabled = true
			}
		}
		switch {
		case len(en) == 1:
			next = en[0]
		case curEnabled && ts.preempts >= e.job.Preempt:
			next = cur
		default:
			// order: current thread first so that alternative 0 is "no pre-emption"
			ord := en
			if curEnabled {
				ord = []*thread{cur}
				for _, t := range en {
					if t != cur {
						ord = append(ord, t)
					}
				}
			}
			i := e.choose(len(ord), func(int) *Term { return e.st.True }, false)
			e.recordChoice("sched", ord[i].id)
			next = ord[i]
			if curEnabled && next != cur {
				ts.preempts++
			}
		}
		cur = next
		ts.cur = next
		next.blocked = nil
		next.wake <- struct{}{}
		m := <-ts.toSched
		switch m.kind {
		case msgAbort:
			panic(m.pan)
		case msgDone:
			// release: thread exit happens-before join (WaitGroup handles the rest)
		}
	}
}

// park hands the baton back to the scheduler and waits to be resumed.
func (e *Engine) park() {
	ts := e.th
	t := ts.cur
	select {
	case ts.toSched <- schedMsg{kind: msgYield}:
	case <-ts.kill:
		panic(&abortSignal{kind: abortKilled})
	}
	select {
	case <-t.wake:
	case <-ts.kill:
		panic(&abortSignal{kind: abortKilled})
	}
}

func (e *Engine) killThreads() {
	ts := e.th
	if ts == nil {
		return
	}
	if !ts.killed {
		ts.killed = true
		close(ts.kill)
	}
	ts.wg.Wait()
	e.th = nil
}

func (e *Engine) multi() bool {
	if e.th == nil {
		return false
	}
	n := 0
	for _, t := range e.th.all {
		if !t.done {
			n++
		}
	}
	return n > 1
}

// yield is a scheduling point.
func (e *Engine) yield(site string) {
	if !e.multi() {
		return
	}
	e.th.cur.site = site
	e.park()
}

// spawn starts a goroutine (thread mode) or records it (sequential jobs).
func (e *Engine) spawn(fr *frame, fn Value, args []Value) {
	if !e.job.Threads {
		e.res.Intrinsics["go-statement-not-scheduled"]++
		return
	}
	ts := e.th
	if len(ts.all) >= maxThreads {
		panic(unsupported("too many goroutines"))
	}
	t := &thread{id: len(ts.all), wake: make(chan struct{}), fn: fn, args: args}
	// fork edge
	t.vc = ts.cur.vc
	t.vc[t.id] = 1
	ts.cur.vc[ts.cur.id]++
	ts.all = append(ts.all, t)
	e.startThread(t)
	e.yield("go")
}

// waitAll blocks the caller until every other thread has finished (join edge).
func (e *Engine) waitAll() {
	if e.th == nil {
		return
	}
	me := e.th.cur
	e.blockUntil("verifrt.WaitAll", func() bool {
		for _, t := range e.th.all {
			if t != me && !t.done && !t.daemon {
				return false
			}
		}
		return true
	})
	for _, t := range e.th.all {
		if t != me {
			me.vc.join(&t.vc)
		}
	}
}

// blockUntil parks the current thread until cond holds.
func (e *Engine) blockUntil(site string, cond func() bool) {
	for !cond() {
		t := e.th.cur
		t.site = site
		t.blocked = cond
		e.park()
	}
}

func (e *Engine) siteOf() string {
	return ""
}

func (e *Engine) mutexOf(p *Value) *mutexState {
	m, ok := e.side[p].(*mutexState)
	if !ok {
		m = &mutexState{readers: map[*thread]int{}}
		e.side[p] = m
	}
	return m
}

func (e *Engine) mutexLock(p *Value, write bool) {
	if p == nil {
		panic(&goPanic{runtime: "invalid memory address or nil pointer dereference"})
	}
	m := e.mutexOf(p)
	site := "Lock " + e.cellDesc(p)
	if !write {
		site = "RLock " + e.cellDesc(p)
	}
	if e.th != nil && e.th.cur != nil {
		e.th.cur.wants, e.th.cur.wantsW = p, write
	}
	e.yield(site)
	t := e.th.cur
	t.wants = nil
	can := func() bool {
		if write {
			return m.writer == nil && len(m.readers) == 0
		}
		return m.writer == nil
	}
	if !can() {
		// self-deadlock (re-locking a mutex this thread already holds) is found by the scheduler
		e.blockUntil(site, can)
	}
	if write {
		m.writer = t
		t.vc.join(&m.rvc)
	} else {
		m.readers[t]++
	}
	t.vc.join(&m.vc)
}

// mutexTryLock: TryLock / TryRLock - a scheduling point, then the lock is taken
// if it is free at that instant.
func (e *Engine) mutexTryLock(p *Value, write bool) bool {
	if p == nil {
		panic(&goPanic{runtime: "invalid memory address or nil pointer dereference"})
	}
	m := e.mutexOf(p)
	site := "TryLock " + e.cellDesc(p)
	if !write {
		site = "TryRLock " + e.cellDesc(p)
	}
	e.yield(site)
	t := e.th.cur
	if m.writer != nil || (write && len(m.readers) > 0) {
		return false
	}
	// The lock is free now, but another thread may be about to take it: a critical
	// section without scheduling points of its own is one atomic step of the
	// exploration, so "the try falls into that critical section" is a separate
	// decision (the other thread then runs its critical section afterwards; a
	// race-free program cannot tell the difference).
	for _, o := range e.th.all {
		if o == t || o.done || o.blocked != nil {
			continue
		}
		if o.wants == p && (o.wantsW || write) {
			k := e.choose(2, func(int) *Term { return e.st.True }, false)
			e.recordChoice("select", k)
			if k == 1 {
				return false
			}
			break
		}
	}
	if write {
		m.writer = t
		t.vc.join(&m.rvc)
	} else {
		m.readers[t]++
	}
	t.vc.join(&m.vc)
	return true
}

func (e *Engine) mutexUnlock(p *Value, write bool) {
	m := e.mutexOf(p)
	t := e.th.cur
	if write {
		if m.writer == nil {
			panic(&goPanic{runtime: "sync: unlock of unlocked mutex"})
		}
		m.writer = nil
	} else {
		if m.readers[t] == 0 {
			// RUnlock by a different goroutine is legal but not modelled
			for k := range m.readers {
				t = k
				break
			}
			if m.readers[t] == 0 {
				panic(&goPanic{runtime: "sync: RUnlock of unlocked RWMutex"})
			}
		}
		m.readers[t]--
		if m.readers[t] == 0 {
			delete(m.readers, t)
		}
	}
	cur := e.th.cur
	if write {
		m.vc.join(&cur.vc)
	} else {
		m.rvc.join(&cur.vc)
	}
	cur.vc[cur.id]++
}

func (e *Engine) wgOf(p *Value) *wgState {
	w, ok := e.side[p].(*wgState)
	if !ok {
		w = &wgState{}
		e.side[p] = w
	}
	return w
}

func (e *Engine) wgAdd(p *Value, d int) {
	w := e.wgOf(p)
	e.yield("WaitGroup.Add")
	t := e.th.cur
	if d > 0 && w.n == 0 && w.waiting > 0 {
		e.reportEvent("waitgroup", "WaitGroup misuse: Add called concurrently with Wait on "+e.cellDesc(p), "counter was zero while a Wait is in progress")
	}
	w.n += d
	if w.n < 0 {
		panic(&goPanic{runtime: "sync: negative WaitGroup counter"})
	}
	if d < 0 {
		w.vc.join(&t.vc)
		t.vc[t.id]++
	}
}

func (e *Engine) wgWait(p *Value) {
	w := e.wgOf(p)
	w.waiting++
	e.yield("WaitGroup.Wait")
	// a Wait that observes zero may still be racing with an Add that has not
	// happened-before it: checked through the shadow of the counter
	e.wgRaceCheck(p, w)
	e.blockUntil("WaitGroup.Wait "+e.cellDesc(p), func() bool { return w.n == 0 })
	w.waiting--
	e.th.cur.vc.join(&w.vc)
}

// wgRaceCheck models the documented rule "calls with a positive delta that
// occur when the counter is zero must happen before a Wait": it records the
// Wait as a read and positive Adds from zero as writes of a pseudo cell.
func (e *Engine) wgRaceCheck(p *Value, w *wgState) {}

// ---------------------------------------------------------------- data-race shadow state

func (e *Engine) cellDesc(p *Value) string {
	if d, ok := e.cellName[p]; ok {
		return d
	}
	return "cell"
}

func (e *Engine) shadowOf(p *Value) *shadow {
	s, ok := e.shadow[p]
	if !ok {
		s = &shadow{reads: map[int]readRec{}}
		e.shadow[p] = s
	}
	return s
}

func (e *Engine) access(p *Value, write bool) {
	if e.th == nil || len(e.th.all) < 2 || !e.job.Threads {
		return
	}
	e.accessKind(p, write, false)
}

func (e *Engine) atomicAccess(p *Value, write bool) {
	if e.th == nil || !e.job.Threads {
		return
	}
	if p == nil {
		return
	}
	s := e.shadowOf(p)
	t := e.th.cur
	// atomics synchronise: acquire, then release
	t.vc.join(&s.svc)
	e.accessKind(p, write, true)
	s.svc.join(&t.vc)
	t.vc[t.id]++
}

func (e *Engine) accessKind(p *Value, write bool, atomic bool) {
	t := e.th.cur
	s := e.shadowOf(p)
	site := e.curSite
	report := func(kind, other string) {
		a, b := site, other
		if a > b {
			a, b = b, a
		}
		label := fmt.Sprintf("data race on %s", e.cellDesc(p))
		e.reportEvent("race", label, fmt.Sprintf("%s between %s and %s", kind, a, b))
	}
	if s.hasW && s.wTid != t.id && s.wClk > t.vc[s.wTid] && !(atomic && s.wAtomic) {
		if !s.reported {
			s.reported = true
			if write {
				report("write/write", s.wSite)
			} else {
				report("write/read", s.wSite)
			}
		}
	}
	if write {
		for tid, r := range s.reads {
			if tid != t.id && r.clk > t.vc[tid] && !(atomic && r.atomic) {
				if !s.reported {
					s.reported = true
					report("read/write", r.site)
				}
			}
		}
		s.hasW = true
		s.wTid = t.id
		s.wClk = t.vc[t.id]
		s.wAtomic = atomic
		s.wSite = site
		s.reads = map[int]readRec{}
	} else {
		s.reads[t.id] = readRec{clk: t.vc[t.id], atomic: atomic, site: site}
	}
}

// ---------------------------------------------------------------- channels (close / receive only)

func (e *Engine) chanClosed(ch *Chan) {
	if e.th != nil {
		t := e.th.cur
		ch.vc.join(&t.vc)
		t.vc[t.id]++
	}
}

func (e *Engine) blockOnChan(ch *Chan) bool {
	if e.th == nil || !e.job.Threads {
		return false
	}
	e.blockUntilDaemon("chan receive", func() bool { return len(ch.Buf) > 0 || ch.Closed || (e.tickReady(ch)) })
	return true
}

// blockUntilDaemon is blockUntil for waits on channels: the thread counts as a
// daemon while parked (it does not make the scheduler report a deadlock).
func (e *Engine) blockUntilDaemon(site string, cond func() bool) {
	for !cond() {
		t := e.th.cur
		t.site = site
		t.blocked = cond
		t.daemon = true
		e.park()
		t.daemon = false
	}
}

// blockOnSelect parks the thread until one of the select's channels is ready.
// A thread parked forever on a ticker that never fires is not a deadlock as
// long as the main thread can finish (like a janitor goroutine in a real program).
func (e *Engine) blockOnSelect(chans []*Chan) bool {
	if e.th == nil || !e.job.Threads {
		return false
	}
	e.blockUntilDaemon("select", func() bool {
		for _, c := range chans {
			if c != nil && (len(c.Buf) > 0 || c.Closed || (e.tickReady(c))) {
				return true
			}
		}
		return false
	})
	return true
}

// syncAcqRel models a synchronising operation on an object (sync.Map
// operations, context cancel/Done): acquire then release on the object's clock.
func (e *Engine) syncAcqRel(p *Value) {
	if e.th == nil || !e.job.Threads || p == nil {
		return
	}
	s := e.shadowOf(p)
	t := e.th.cur
	t.vc.join(&s.svc)
	s.svc.join(&t.vc)
	t.vc[t.id]++
}

// settle lets every other thread run until it is blocked or finished (a
// deterministic prefix: goroutines started by constructors reach their parking
// point before the concurrent part of a harness begins).
func (e *Engine) settle() {
	if e.th == nil || !e.job.Threads {
		return
	}
	me := e.th.cur
	e.blockUntil("verifrt.Settle", func() bool {
		for _, t := range e.th.all {
			if t == me || t.done {
				continue
			}
			if t.blocked == nil || t.blocked() {
				return false
			}
		}
		return true
	})
}

// atomicPointer models the methods of sync/atomic.Pointer[T].
func (e *Engine) atomicPointer(fn *ssa.Function, key string, args []Value) (Value, bool) {
	recv, ok := args[0].(*Value)
	if !ok || recv == nil {
		panic(unsupported(fmt.Sprintf("atomic.Pointer receiver %T in %s", args[0], key)))
	}
	cur := func() Value {
		if v, ok := e.side[recv]; ok {
			return v.(Value)
		}
		return (*Value)(nil)
	}
	if e.th != nil && e.job.Threads {
		e.yield("atomic.Pointer")
	}
	name := key[strings.LastIndex(key, ".")+1:] // the instantiation's own Name() carries the type arguments
	switch name {
	case "Load":
		e.atomicAccess(recv, false)
		return cur(), true
	case "Store":
		e.atomicAccess(recv, true)
		e.side[recv] = args[1]
		return nil, true
	case "Swap":
		e.atomicAccess(recv, true)
		old := cur()
		e.side[recv] = args[1]
		return old, true
	case "CompareAndSwap":
		e.atomicAccess(recv, true)
		if e.branch(e.valueEq(cur(), args[1])) {
			e.side[recv] = args[2]
			return e.st.True, true
		}
		return e.st.False, true
	}
	return nil, false
}
