package sym

import (
	"fmt"
	"go/types"
	"strings"

	"golang.org/x/tools/go/ssa"
)

// Value is one of:
//
//	*Term            integers (W>0) and booleans (W==0)
//	Str              strings (concrete, or symbolic bytes with concrete length)
//	Float            float32/float64 (concrete or opaque)
//	*Value           pointers (nil pointer = (*Value)(nil))
//	Struct           struct values
//	Array            array values
//	Slice            slices
//	Iface            interface values
//	*Map             maps (nil map = (*Map)(nil))
//	*Closure         closures
//	*ssa.Function    function values
//	*ssa.Builtin     builtins
//	Tuple            multiple results
//	*Chan            channels
//	FuncNil          nil func
type Value interface{}

type Str struct {
	S   string
	Sym []*Term // if non-nil: symbolic bytes (width 8), len(Sym) is the length
}

func (s Str) IsSym() bool { return s.Sym != nil }
func (s Str) Len() int {
	if s.Sym != nil {
		return len(s.Sym)
	}
	return len(s.S)
}

type Float struct {
	F      float64
	Opaque bool
	I      *Term // Opaque && I != nil: the float is the exact image of this signed 64-bit integer (|value| < 2^53 assumed)
}

type Struct []Value
type Array []Value
type Tuple []Value

type Slice struct {
	V   []Value // Go slice sharing the backing store; len(V) is the length, cap(V) the capacity
	Nil bool
}

type Iface struct {
	T types.Type // dynamic type; nil for nil interface
	V Value
}

type Map struct {
	Keys []Value
	Vals []Value
	KT   types.Type
	VT   types.Type
	cell *Value // shadow cell for the race detector: the map as a whole (Go reports map read/write and write/write races)
}

type Closure struct {
	Fn  *ssa.Function
	Env []Value
}

type FuncNil struct{}

// NativeFn is a function value implemented by the engine (e.g. a context's cancel function).
type NativeFn struct {
	Name string
	F    func(e *Engine, args []Value) Value
}

type Chan struct {
	Buf    []Value
	Cap    int
	Closed bool
	vc     vclock
	Ticker bool // channel of a time.Ticker: ready while the harness' tick budget lasts
	Epoch  int  // tickers created before the latest verifrt.Ticks call never fire
}

// rangeIter is the value of an ssa.Range instruction.
type rangeIter struct {
	m    *Map // snapshot
	live *Map
	s    Str
	isS  bool
	i    int
}

// ---------------------------------------------------------------- types

func widthOfBasic(b *types.Basic) int {
	switch b.Kind() {
	case types.Bool, types.UntypedBool:
		return 0
	case types.Int8, types.Uint8:
		return 8
	case types.Int16, types.Uint16:
		return 16
	case types.Int32, types.Uint32, types.UntypedRune:
		return 32
	case types.Int, types.Uint, types.Int64, types.Uint64, types.Uintptr, types.UntypedInt:
		return 64
	}
	return -1
}

func isSigned(t types.Type) bool {
	if b, ok := t.Underlying().(*types.Basic); ok {
		return b.Info()&types.IsUnsigned == 0 && b.Info()&types.IsInteger != 0
	}
	return false
}

func isIntegerT(t types.Type) bool {
	if b, ok := t.Underlying().(*types.Basic); ok {
		return b.Info()&types.IsInteger != 0
	}
	return false
}

func isStringT(t types.Type) bool {
	if b, ok := t.Underlying().(*types.Basic); ok {
		return b.Info()&types.IsString != 0
	}
	return false
}

func isFloatT(t types.Type) bool {
	if b, ok := t.Underlying().(*types.Basic); ok {
		return b.Info()&types.IsFloat != 0
	}
	return false
}

func isBoolT(t types.Type) bool {
	if b, ok := t.Underlying().(*types.Basic); ok {
		return b.Info()&types.IsBoolean != 0
	}
	return false
}

func intWidth(t types.Type) int {
	if b, ok := t.Underlying().(*types.Basic); ok {
		return widthOfBasic(b)
	}
	return -1
}

// zero returns the zero value of a type.
func (e *Engine) zero(t types.Type) Value {
	if z := opaqueZero(t); z != nil {
		return z
	}
	switch u := t.Underlying().(type) {
	case *types.Basic:
		switch {
		case u.Info()&types.IsBoolean != 0:
			return e.st.False
		case u.Info()&types.IsInteger != 0:
			return e.st.Const(widthOfBasic(u), 0)
		case u.Info()&types.IsString != 0:
			return Str{}
		case u.Info()&types.IsFloat != 0:
			return Float{}
		case u.Kind() == types.UnsafePointer:
			return (*Value)(nil)
		case u.Kind() == types.UntypedNil:
			return nil
		}
		panic(unsupported("zero value of basic type " + t.String()))
	case *types.Pointer:
		return (*Value)(nil)
	case *types.Struct:
		s := make(Struct, u.NumFields())
		for i := range s {
			s[i] = e.zero(u.Field(i).Type())
		}
		return s
	case *types.Array:
		a := make(Array, u.Len())
		for i := range a {
			a[i] = e.zero(u.Elem())
		}
		return a
	case *types.Slice:
		return Slice{Nil: true}
	case *types.Interface:
		return Iface{}
	case *types.Map:
		return (*Map)(nil)
	case *types.Signature:
		return FuncNil{}
	case *types.Chan:
		return (*Chan)(nil)
	case *types.Tuple:
		tp := make(Tuple, u.Len())
		for i := range tp {
			tp[i] = e.zero(u.At(i).Type())
		}
		return tp
	}
	panic(unsupported("zero value of type " + t.String()))
}

// copyVal makes a deep copy of aggregate values (structs and arrays have value semantics).
func copyVal(v Value) Value {
	switch x := v.(type) {
	case Struct:
		c := make(Struct, len(x))
		for i, f := range x {
			c[i] = copyVal(f)
		}
		return c
	case Array:
		c := make(Array, len(x))
		for i, f := range x {
			c[i] = copyVal(f)
		}
		return c
	case Tuple:
		c := make(Tuple, len(x))
		for i, f := range x {
			c[i] = copyVal(f)
		}
		return c
	}
	return v
}

// ---------------------------------------------------------------- engine aborts

type abortKind int

const (
	abortInfeasible  abortKind = iota // path condition became unsatisfiable / Assume(false)
	abortExhausted                    // backtracking found no feasible alternative
	abortUnsupported                  // construct outside the encoder
	abortUnwind                       // loop bound exceeded
	abortDone                         // os.Exit-like termination
	abortViolation                    // stop-at-first-violation
	abortKilled                       // thread torn down because the path ended
)

type abortSignal struct {
	kind abortKind
	msg  string
}

func unsupported(msg string) *abortSignal {
	return &abortSignal{kind: abortUnsupported, msg: msg}
}

// goPanic is a Go-level panic in the interpreted program.
type goPanic struct {
	val     Value
	runtime string // non-empty for run-time errors (index out of range, nil deref, ...)
}

func (p *goPanic) String() string {
	if p.runtime != "" {
		return "runtime error: " + p.runtime
	}
	return fmt.Sprintf("panic(%s)", showValue(p.val, 0))
}

func showValue(v Value, depth int) string {
	if depth > 3 {
		return "…"
	}
	switch x := v.(type) {
	case nil:
		return "nil"
	case *Term:
		if x.IsConst() {
			if x.W == 0 {
				return constStr(x)
			}
			return fmt.Sprintf("%d", x.SVal())
		}
		s := x.String()
		if len(s) > 60 {
			s = s[:60] + "…"
		}
		return s
	case Str:
		if x.IsSym() {
			return fmt.Sprintf("symstr[%d]", len(x.Sym))
		}
		return fmt.Sprintf("%q", x.S)
	case Float:
		if x.Opaque {
			return "float?"
		}
		return fmt.Sprintf("%g", x.F)
	case *Value:
		if x == nil {
			return "nil"
		}
		return fmt.Sprintf("&%p", x)
	case Struct:
		var parts []string
		for _, f := range x {
			parts = append(parts, showValue(f, depth+1))
		}
		return "{" + strings.Join(parts, " ") + "}"
	case Array:
		return fmt.Sprintf("array[%d]", len(x))
	case Slice:
		return fmt.Sprintf("slice[%d]", len(x.V))
	case Iface:
		if x.T == nil {
			return "nil"
		}
		return fmt.Sprintf("iface(%s)%s", x.T, showValue(x.V, depth+1))
	case *Map:
		if x == nil {
			return "nilmap"
		}
		return fmt.Sprintf("map[%d]", len(x.Keys))
	case *Closure:
		return "closure " + x.Fn.Name()
	case *ssa.Function:
		return "func " + x.Name()
	case Tuple:
		var parts []string
		for _, f := range x {
			parts = append(parts, showValue(f, depth+1))
		}
		return "(" + strings.Join(parts, ", ") + ")"
	}
	return fmt.Sprintf("%T", v)
}
