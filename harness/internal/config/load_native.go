package config

import (
	"os"

	"gopkg.in/yaml.v3"
)

// Natively the configuration is written out as YAML (the real encoder) and
// loaded through the real LoadConfig: file system, YAML parser, everything.
func verifLoad(c *Config) error {
	data, err := yaml.Marshal(c)
	if err != nil {
		panic(err)
	}
	f, err := os.CreateTemp("", "verif-config-*.yaml")
	if err != nil {
		panic(err)
	}
	defer os.Remove(f.Name())
	f.Write(data)
	f.Close()
	_, err = LoadConfig(f.Name())
	return err
}

// VerifLoadConfig: the configuration value LoadConfig returns for a file that denotes c (written out as real YAML).
func VerifLoadConfig(c *Config) (*Config, error) {
	data, err := yaml.Marshal(c)
	if err != nil {
		panic(err)
	}
	f, err := os.CreateTemp("", "verif-config-*.yaml")
	if err != nil {
		panic(err)
	}
	defer os.Remove(f.Name())
	f.Write(data)
	f.Close()
	return LoadConfig(f.Name())
}
