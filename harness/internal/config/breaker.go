package config

// VerifBreakerAccepted runs the real validateCircuitBreaker on a breaker
// section with these thresholds (max_requests 0 = unset).
func VerifBreakerAccepted(failureThreshold, successThreshold, maxRequests int) bool {
	c := &Config{}
	c.CircuitBreaker = CircuitBreakerConfig{Enabled: true, MaxRequests: maxRequests, IntervalSeconds: 1, TimeoutSeconds: 1,
		FailureThreshold: failureThreshold, SuccessThreshold: successThreshold}
	return c.validateCircuitBreaker() == nil
}
