package config

import (
	"github.com/0xReLogic/Helios/internal/verifrt"
)

// verifBinary: in the all-sections run every enum is reduced to {a valid value, an invalid value}.
var verifBinary = false

func verifPick(name string, opts []string) string {
	if verifBinary {
		if verifrt.Bool(name + ".invalid") {
			return opts[len(opts)-1]
		}
		return opts[1%len(opts)]
	}
	return opts[verifrt.Choice(name, len(opts))]
}

// VerifC18Validate: loading (the real LoadConfig; file system and YAML parser
// are models under the executor and real natively) accepts exactly the configurations that
// satisfy the documented constraints (README, shipped sample files). Every
// integer field is an arbitrary 64-bit value; strings range over the documented
// enum values, the empty string and an undocumented one. Values the code
// accepts without documentation (level "fatal", format "console") are
// don't-care and excluded from the value sets.
func VerifC18Validate(section int) {
	c := &Config{}
	// a baseline that satisfies every documented constraint
	c.Backends = []BackendConfig{{Name: "b0", Address: "http://127.0.0.1:8081"}}
	c.Server.Port = 8080
	ok := true

	all := section == 0
	verifBinary = all
	if all || section == 1 {
		n := verifrt.Choice("backends", 3)
		if all {
			n = 1
		}
		c.Backends = nil
		for i := 0; i < n; i++ {
			b := BackendConfig{Name: verifPick("backend.name", []string{"b", "b", ""}), Address: verifPick("backend.address", []string{"http://127.0.0.1:8081", "http://127.0.0.1:8081", ""}), Weight: verifrt.Int("backend.weight")}
			c.Backends = append(c.Backends, b)
			ok = verifrt.And(ok, verifrt.And(b.Name != "", verifrt.And(b.Address != "", b.Weight >= 0)))
		}
		ok = verifrt.And(ok, n >= 1)
	}
	if all || section == 2 {
		c.Server.Port = verifrt.Int("server.port")
		c.Server.TLS.Enabled = verifrt.Bool("tls.enabled")
		c.Server.TLS.CertFile = verifPick("tls.cert", []string{"cert.pem", "cert.pem", ""})
		c.Server.TLS.KeyFile = verifPick("tls.key", []string{"key.pem", "key.pem", ""})
		ok = verifrt.And(ok, verifrt.And(c.Server.Port >= 1, c.Server.Port <= 65535))
		ok = verifrt.And(ok, verifrt.Implies(c.Server.TLS.Enabled, c.Server.TLS.CertFile != "" && c.Server.TLS.KeyFile != ""))
	}
	if all || section == 3 {
		t := &c.Server.Timeouts
		t.Read, t.Write, t.Idle, t.Handler = verifrt.Int("timeouts.read"), verifrt.Int("timeouts.write"), verifrt.Int("timeouts.idle"), verifrt.Int("timeouts.handler")
		t.Shutdown, t.BackendDial, t.BackendRead, t.BackendIdle = verifrt.Int("timeouts.shutdown"), verifrt.Int("timeouts.backend_dial"), verifrt.Int("timeouts.backend_read"), verifrt.Int("timeouts.backend_idle")
		for _, v := range []int{t.Read, t.Write, t.Idle, t.Handler, t.Shutdown, t.BackendDial, t.BackendRead, t.BackendIdle} {
			ok = verifrt.And(ok, v >= 0)
		}
	}
	if all || section == 4 {
		// the documented names are lower-case; a spelling that differs in letter case is not one of them
		// (the balancer matches names exactly and would silently fall back to round robin)
		c.LoadBalancer.Strategy = verifPick("strategy", []string{"", "round_robin", "least_connections", "weighted_round_robin", "ip_hash", "ip_hash_consistent", "IP_HASH", "Weighted_Round_Robin", "fastest"})
		ok = verifrt.And(ok, c.LoadBalancer.Strategy != "fastest" && c.LoadBalancer.Strategy != "IP_HASH" && c.LoadBalancer.Strategy != "Weighted_Round_Robin")
		p := &c.LoadBalancer.WebSocketPool
		p.Enabled = verifrt.Bool("ws.enabled")
		p.MaxIdle, p.MaxActive, p.IdleTimeoutSeconds = verifrt.Int("ws.max_idle"), verifrt.Int("ws.max_active"), verifrt.Int("ws.idle_timeout")
		wsOK := verifrt.And(p.MaxIdle >= 0, verifrt.And(p.MaxActive >= 0, verifrt.And(verifrt.Implies(p.MaxActive > 0, p.MaxIdle <= p.MaxActive), p.IdleTimeoutSeconds >= 0)))
		ok = verifrt.And(ok, verifrt.Implies(p.Enabled, wsOK))
	}
	if all || section == 5 {
		a := &c.HealthChecks.Active
		a.Enabled = verifrt.Bool("active.enabled")
		a.Interval, a.Timeout = verifrt.Int("active.interval"), verifrt.Int("active.timeout")
		a.Path = verifPick("active.path", []string{"/health", "/health", ""})
		aOK := verifrt.And(a.Interval > 0, verifrt.And(a.Timeout > 0, verifrt.And(a.Timeout < a.Interval, a.Path != "")))
		ok = verifrt.And(ok, verifrt.Implies(a.Enabled, aOK))
		p := &c.HealthChecks.Passive
		p.Enabled = verifrt.Bool("passive.enabled")
		p.UnhealthyThreshold, p.UnhealthyTimeout = verifrt.Int("passive.threshold"), verifrt.Int("passive.timeout")
		ok = verifrt.And(ok, verifrt.Implies(p.Enabled, verifrt.And(p.UnhealthyThreshold > 0, p.UnhealthyTimeout > 0)))
	}
	if all || section == 6 {
		r := &c.RateLimit
		r.Enabled = verifrt.Bool("rate_limit.enabled")
		r.MaxTokens, r.RefillRate = verifrt.Int("rate_limit.max_tokens"), verifrt.Int("rate_limit.refill")
		ok = verifrt.And(ok, verifrt.Implies(r.Enabled, verifrt.And(r.MaxTokens > 0, r.RefillRate > 0)))
		b := &c.CircuitBreaker
		b.Enabled = verifrt.Bool("breaker.enabled")
		b.FailureThreshold, b.SuccessThreshold = verifrt.Int("breaker.failure_threshold"), verifrt.Int("breaker.success_threshold")
		b.TimeoutSeconds, b.IntervalSeconds = verifrt.Int("breaker.timeout"), verifrt.Int("breaker.interval")
		b.MaxRequests = verifrt.IntRange("breaker.max_requests", 0, 1<<31)
		bOK := verifrt.And(b.FailureThreshold > 0, verifrt.And(b.SuccessThreshold > 0, verifrt.And(b.TimeoutSeconds > 0, b.IntervalSeconds > 0)))
		// documented with the sample files: max_requests is at least success_threshold (0 / unset = success_threshold)
		bOK = verifrt.And(bOK, verifrt.Or(b.MaxRequests == 0, b.SuccessThreshold <= b.MaxRequests))
		ok = verifrt.And(ok, verifrt.Implies(b.Enabled, bOK))
	}
	if all || section == 7 {
		m := &c.Metrics
		m.Enabled = verifrt.Bool("metrics.enabled")
		m.Port = verifrt.Int("metrics.port")
		m.Path = verifPick("metrics.path", []string{"/metrics", "/metrics", ""})
		ok = verifrt.And(ok, verifrt.Implies(m.Enabled, verifrt.And(m.Port >= 1, verifrt.And(m.Port <= 65535, m.Path != ""))))
		a := &c.AdminAPI
		a.Enabled = verifrt.Bool("admin.enabled")
		a.Port = verifrt.Int("admin.port")
		ok = verifrt.And(ok, verifrt.Implies(a.Enabled, verifrt.And(a.Port >= 1, a.Port <= 65535)))
		// access lists in every documented form (README: "single IPs (127.0.0.1) and CIDR notation"):
		// none of them is a reason to refuse the file. (Malformed entries are don't-care here: the
		// admin API fails closed on them at run time, C10.)
		forms := []string{"", "127.0.0.1", "10.0.0.0/8", "::1", "2001:db8::/32", "::ffff:192.0.2.1"}
		fa, fd := 1, 0
		if !all {
			fa, fd = verifrt.Choice("admin.ip_allow_list", len(forms)), verifrt.Choice("admin.ip_deny_list", len(forms))
		}
		if fa != 0 {
			a.IPAllowList = []string{"192.168.1.0/24", forms[fa]}
		}
		if fd != 0 {
			a.IPDenyList = []string{forms[fd]}
		}
	}
	if all || section == 8 {
		c.Logging.Level = verifPick("logging.level", []string{"", "debug", "info", "warn", "error", "verbose"})
		c.Logging.Format = verifPick("logging.format", []string{"", "text", "json", "xml"})
		ok = verifrt.And(ok, c.Logging.Level != "verbose" && c.Logging.Format != "xml")
	}
	err := verifLoad(c)
	verifrt.Assert(verifrt.Implies(ok, err == nil), "every configuration that satisfies the documented constraints is accepted")
	verifrt.Assert(verifrt.Implies(!ok, err != nil), "every configuration that violates a documented constraint is rejected")
}

// VerifC18Neg: negative twin - claims port 0 is accepted.
func VerifC18Neg() {
	c := &Config{Backends: []BackendConfig{{Name: "b", Address: "http://x"}}}
	c.Server.Port = verifrt.IntRange("port", 0, 1)
	verifrt.Assert(c.Validate() == nil, "NEGATIVE TWIN: port 0 is accepted")
}
