package config

// Under the executor LoadConfig runs for real except for the file system and
// the YAML parser: os.ReadFile is replaced by verifReadFile and yaml.Unmarshal by
// verifUnmarshal, which delivers the configuration value the "file" denotes.
var verifFileConfig *Config

func verifReadFile(name string) ([]byte, error) { return []byte("verif"), nil }

func verifUnmarshal(data []byte, out interface{}) error {
	*(out.(*Config)) = *verifFileConfig
	return nil
}

// verifLoad: the outcome of loading a file that denotes c.
func verifLoad(c *Config) error {
	verifFileConfig = c
	_, err := LoadConfig("verif.yaml")
	return err
}

// VerifLoadConfig: the configuration value LoadConfig returns for a file that denotes c.
func VerifLoadConfig(c *Config) (*Config, error) {
	verifFileConfig = c
	return LoadConfig("verif.yaml")
}
