package plugins

import (
	"net/http"
	"strconv"

	"github.com/0xReLogic/Helios/internal/verifrt"
)

var verifAcceptEncodings = []string{"", "gzip", "identity", "deflate, gzip", "gzip;q=1.0", " gzip ", "br,gzip,deflate", "GZIP", "x-gzip"}

// VerifC15Wire: what the client decodes according to the headers ON THE WIRE
// is exactly what the backend sent, with the backend's status.
func VerifC15Wire(writes int, level int) {
	minSize := verifrt.IntRange("min_size", 0, 4)
	mw, err := builtins["gzip"]("gzip", map[string]interface{}{
		"level":         float64(level),
		"min_size":      float64(minSize),
		"content_types": []interface{}{"text/html", "application/json"},
	})
	verifrt.Assert(err == nil, "documented gzip options are accepted")

	ae := verifAcceptEncodings[verifrt.Choice("acceptEncoding", len(verifAcceptEncodings))]
	listed := ae == "gzip" || ae == "deflate, gzip" || ae == " gzip " || ae == "br,gzip,deflate"
	ctype := []string{"text/html; charset=utf-8", "application/json", "image/png", ""}[verifrt.Choice("contentType", 4)]
	typeMatches := ctype == "text/html; charset=utf-8" || ctype == "application/json"
	preEncoded := verifrt.Bool("backendAlreadyEncoded")
	declareLength := verifrt.Bool("backendSendsContentLength")
	explicit := verifrt.Bool("explicitWriteHeader")
	status := 200
	if explicit {
		status = verifrt.IntRange("status", 200, 599)
	}
	// flush requests change nothing about status, headers or body (before any header is
	// written an early flush commits an implicit 200 like on a bare connection)
	flushEarly := explicit && verifrt.Bool("flushRightAfterHeader")
	flushLate := verifrt.Bool("flushAfterBody")
	interimFirst := verifrt.Bool("interim103BeforeTheFinalStatus")
	sizes := make([]int, writes)
	total := 0
	for i := range sizes {
		sizes[i] = verifrt.Choice("len", 3)
		total += sizes[i]
	}
	backendBody := verifPayload[:total]
	overDeclare := 0
	if declareLength && verifrt.Bool("declaredLengthExceedsBody") {
		overDeclare = 7
	}

	rec := verifNewRecorder()
	h := mw(http.HandlerFunc(func(w http.ResponseWriter, r *http.Request) {
		if ctype != "" {
			w.Header().Set("Content-Type", ctype)
		}
		if preEncoded {
			w.Header().Set("Content-Encoding", "br")
		}
		if declareLength {
			// a HEAD-like / cut-short exchange declares more than it delivers
			w.Header().Set("Content-Length", strconv.Itoa(total+overDeclare))
		}
		flush := func() {
			if f, ok := w.(http.Flusher); ok {
				f.Flush()
			}
		}
		if interimFirst {
			w.WriteHeader(http.StatusEarlyHints) // an informational response precedes the final one
		}
		if explicit {
			w.WriteHeader(status)
		}
		if flushEarly {
			flush() // as ReverseProxy does for streaming / trailer-announcing backends: right after the header
		}
		// like ReverseProxy's copy loop: every chunk goes through one reused buffer
		var chunk [8]byte
		off := 0
		for _, n := range sizes {
			copy(chunk[:], verifPayload[off:off+n])
			w.Write(chunk[:n])
			off += n
		}
		for i := range chunk {
			chunk[i] = '#' // the buffer belongs to the caller again
		}
		if flushLate {
			flush()
		}
	}))
	r := verifRequest()
	if ae != "" {
		r.Header.Set("Accept-Encoding", ae)
	}
	h.ServeHTTP(rec, r)
	rec.finish()

	verifrt.Assert(rec.status == status, "the client gets the backend's status")
	enc := rec.wire.Get("Content-Encoding")
	eligible := listed && typeMatches && total >= minSize && !preEncoded
	if enc == "gzip" {
		dec, ok := verifGunzip(rec.body)
		verifrt.Assert(ok && string(dec) == backendBody, "Content-Encoding: gzip on the wire: the body decodes to exactly the backend's body")
		verifrt.Assert(rec.wire.Get("Content-Length") == "", "a compressed response carries no stale Content-Length")
		verifrt.Assert(eligible, "a response is compressed only if gzip was listed, the type matches, size >= min_size and it was not already encoded")
	} else {
		verifrt.Assert(string(rec.body) == backendBody, "not labelled gzip on the wire: the body is byte-identical to the backend's body")
		if cl := rec.wire.Get("Content-Length"); cl != "" {
			verifrt.Assert(cl == strconv.Itoa(total+overDeclare), "an uncompressed response keeps the backend's Content-Length")
		}
		if preEncoded {
			verifrt.Assert(enc == "br", "an encoding set by the backend is preserved")
		}
	}
}

// VerifC15Neg: negative twin - claims responses are never compressed.
func VerifC15Neg() {
	mw, _ := builtins["gzip"]("gzip", map[string]interface{}{"level": float64(5), "min_size": float64(0), "content_types": []interface{}{"text/html"}})
	rec := verifNewRecorder()
	r := verifRequest()
	r.Header.Set("Accept-Encoding", "gzip")
	mw(http.HandlerFunc(func(w http.ResponseWriter, r *http.Request) {
		w.Header().Set("Content-Type", "text/html")
		w.Write([]byte("abc"))
	})).ServeHTTP(rec, r)
	rec.finish()
	verifrt.Assert(string(rec.body) == "abc", "NEGATIVE TWIN: eligible responses are delivered uncompressed")
}

// VerifC15Cap: the buffering cap and the streaming fallback (with the cap
// scaled down by a declared source overlay), over TWO consecutive requests
// through the same middleware instance: whatever the first response did
// (stayed under the cap, crossed it in the first write, crossed it in a later
// write), every response must decode to exactly the backend's body.
func VerifC15Cap(writes int) {
	mw, err := builtins["gzip"]("gzip", map[string]interface{}{"level": float64(5), "min_size": float64(0), "content_types": []interface{}{"text/html"}})
	verifrt.Assert(err == nil, "documented gzip options are accepted")
	for req := 0; req < 2; req++ {
		n := writes
		if req == 1 {
			n = 1 // the second response is a small one through the same middleware instance
		}
		sizes := make([]int, n)
		total := 0
		for i := range sizes {
			sizes[i] = []int{0, 3, 5, 6}[verifrt.Choice("len", 4)]
			total += sizes[i]
		}
		status := verifrt.IntRange("status", 200, 599)
		backendBody := verifPayload[:total]
		// the first exchange may be cut short the way ReverseProxy does when the backend dies
		// mid-body: the handler panics with http.ErrAbortHandler after what it has written
		aborts := req == 0 && verifrt.Bool("firstExchangeAbortsMidBody")
		rec := verifNewRecorder()
		h := mw(http.HandlerFunc(func(w http.ResponseWriter, r *http.Request) {
			w.Header().Set("Content-Type", "text/html")
			w.WriteHeader(status)
			off := 0
			for _, n := range sizes {
				w.Write([]byte(verifPayload[off : off+n]))
				off += n
			}
			if aborts {
				panic(http.ErrAbortHandler)
			}
		}))
		r := verifRequest()
		r.Header.Set("Accept-Encoding", "gzip")
		func() {
			defer func() {
				if x := recover(); x != nil && x != http.ErrAbortHandler {
					panic(x)
				}
			}()
			h.ServeHTTP(rec, r)
		}()
		if aborts {
			continue // the connection is gone; what matters is what the next exchange on this instance delivers
		}
		rec.finish()
		verifrt.Assert(rec.status == status, "the client gets the backend's status (also after an over-cap response)")
		if rec.wire.Get("Content-Encoding") == "gzip" {
			dec, ok := verifGunzip(rec.body)
			verifrt.Assert(ok && string(dec) == backendBody, "compressed: the body decodes to exactly the backend's body (cap / reuse)")
			verifrt.Assert(total <= 8, "a response larger than the buffering cap is not compressed")
		} else {
			verifrt.Assert(string(rec.body) == backendBody, "not compressed (over the buffering cap): the body is byte-identical to the backend's body")
		}
	}
}
