package plugins

import (
	"bufio"
	"net"
	"net/http"
	"net/url"
)

// verifRecorder is the client side of the connection as net/http's
// ResponseWriter contract defines it (see the same type in the loadbalancer
// harness): first final WriteHeader wins and freezes the header snapshot,
// Write / Flush imply 200.
type verifRecorder struct {
	hdr         http.Header
	wroteHeader bool
	status      int
	wire        http.Header
	body        []byte
	writes      int
	flushes     int
	hijacks     int
	superfluous int
	// what had been sent when the first Flush happened
	flushedEarly bool
}

func verifNewRecorder() *verifRecorder { return &verifRecorder{hdr: http.Header{}} }

func (r *verifRecorder) Header() http.Header { return r.hdr }

func (r *verifRecorder) WriteHeader(code int) {
	if code >= 100 && code < 200 && code != 101 {
		return
	}
	if r.wroteHeader {
		r.superfluous++
		return
	}
	r.wroteHeader = true
	r.status = code
	r.wire = r.hdr.Clone()
}

func (r *verifRecorder) Write(b []byte) (int, error) {
	if !r.wroteHeader {
		r.WriteHeader(http.StatusOK)
	}
	r.body = append(r.body, b...)
	r.writes++
	return len(b), nil
}

func (r *verifRecorder) Flush() {
	if !r.wroteHeader {
		r.WriteHeader(http.StatusOK)
	}
	r.flushes++
}

func (r *verifRecorder) Hijack() (net.Conn, *bufio.ReadWriter, error) {
	r.hijacks++
	return nil, nil, nil
}

func (r *verifRecorder) finish() {
	if !r.wroteHeader {
		r.WriteHeader(http.StatusOK)
	}
}

func verifRequest() *http.Request {
	return &http.Request{Method: "GET", URL: &url.URL{Path: "/"}, Header: http.Header{}, RemoteAddr: "10.0.0.1:1234", ContentLength: 0}
}

const verifPayload = "abcdefghijklmnopqrstuvwxyz"
