package plugins

import (
	"net/http"

	"github.com/0xReLogic/Helios/internal/config"
	"github.com/0xReLogic/Helios/internal/verifrt"
)

var verifTrace []int // +p = probe at chain position p entered, -p-1 = left; 1000 = base handler

func verifRegisterProbes() {
	for _, name := range []string{"probeA", "probeB", "probeC"} {
		RegisterBuiltin(name, func(n string, cfg map[string]interface{}) (Middleware, error) {
			pos := cfg["pos"].(int)
			return func(next http.Handler) http.Handler {
				return http.HandlerFunc(func(w http.ResponseWriter, r *http.Request) {
					verifTrace = append(verifTrace, pos)
					next.ServeHTTP(w, r)
					verifTrace = append(verifTrace, -pos-1)
				})
			}, nil
		})
	}
}

var verifChainNames = []string{"probeA", "probeB", "probeC", "custom-auth", "size_limit", "headers", "logging", "request-id"}

func verifPluginConfig(kind int, pos int) config.PluginConfig {
	name := verifChainNames[kind]
	switch kind {
	case 0, 1, 2:
		return config.PluginConfig{Name: name, Config: map[string]interface{}{"pos": pos}}
	case 3:
		return config.PluginConfig{Name: name, Config: map[string]interface{}{"apiKey": "sesame"}}
	case 4:
		return config.PluginConfig{Name: name, Config: map[string]interface{}{"max_request_body": 8}}
	case 5:
		return config.PluginConfig{Name: name, Config: map[string]interface{}{"set": map[string]interface{}{"X-App": "Helios"}}}
	}
	return config.PluginConfig{Name: name}
}

// VerifC17Order: every chain of k plugins drawn from the built-ins plus three
// tracing probes: probes are entered in list order (first listed outermost)
// and left in reverse; a rejecting plugin (custom-auth, size_limit) keeps every
// later plugin and the backend from seeing the request.
func VerifC17Order(k int) {
	verifRegisterProbes()
	verifTrace = nil
	kinds := make([]int, k)
	var pc config.PluginsConfig
	pc.Enabled = true
	for p := 0; p < k; p++ {
		kinds[p] = verifrt.Choice("plugin", len(verifChainNames))
		pc.Chain = append(pc.Chain, verifPluginConfig(kinds[p], p))
	}
	keyOK := verifrt.Bool("apiKeyCorrect")
	tooLarge := verifrt.Bool("declaredBodyTooLarge")
	base := http.HandlerFunc(func(w http.ResponseWriter, r *http.Request) {
		verifTrace = append(verifTrace, 1000)
		w.WriteHeader(http.StatusNoContent)
	})
	h, err := BuildChain(pc, base)
	verifrt.Assert(err == nil && h != nil, "a chain of known plugins with valid configuration builds")
	r := verifRequest()
	if keyOK {
		r.Header.Set("X-API-Key", "sesame")
	} else {
		r.Header.Set("X-API-Key", "wrong")
	}
	if tooLarge {
		r.ContentLength = 9
	} else {
		r.ContentLength = 8
	}
	r.Body = http.NoBody
	rec := verifNewRecorder()
	h.ServeHTTP(rec, r)
	rec.finish()

	reject := k // first rejecting position
	for p := k - 1; p >= 0; p-- {
		if (kinds[p] == 3 && !keyOK) || (kinds[p] == 4 && tooLarge) {
			reject = p
		}
	}
	// expected trace
	var want []int
	for p := 0; p < k; p++ {
		if p < reject && kinds[p] <= 2 {
			want = append(want, p)
		}
	}
	if reject == k {
		want = append(want, 1000)
	}
	for p := k - 1; p >= 0; p-- {
		if p < reject && kinds[p] <= 2 {
			want = append(want, -p-1)
		}
	}
	same := len(want) == len(verifTrace)
	if same {
		for i := range want {
			if want[i] != verifTrace[i] {
				same = false
			}
		}
	}
	verifrt.Assert(same, "plugins run in the configured order (first listed outermost); a rejection stops every later plugin and the backend")
	if reject < k {
		if kinds[reject] == 3 {
			verifrt.Assert(rec.status == http.StatusUnauthorized, "custom-auth rejects with 401")
		} else {
			verifrt.Assert(rec.status == http.StatusRequestEntityTooLarge, "size_limit rejects with 413")
		}
	} else {
		verifrt.Assert(rec.status == http.StatusNoContent, "an accepted request reaches the backend and its (bodiless) status reaches the client")
	}
}

// VerifC17FailClosed: a chain that names an unknown plugin or carries an
// invalid configuration payload never yields a handler.
func VerifC17FailClosed(k int) {
	verifRegisterProbes()
	var pc config.PluginsConfig
	pc.Enabled = true
	bad := verifrt.Choice("badPosition", k)
	for p := 0; p < k; p++ {
		if p != bad {
			pc.Chain = append(pc.Chain, verifPluginConfig(verifrt.Choice("plugin", len(verifChainNames)), p))
			continue
		}
		var c config.PluginConfig
		switch verifrt.Choice("defect", 16) {
		case 13: // "apiKey:" with nothing after it (an unset template variable) decodes to nil
			c = config.PluginConfig{Name: "custom-auth", Config: map[string]interface{}{"apiKey": nil}}
		case 14:
			c = config.PluginConfig{Name: "custom-auth", Config: map[string]interface{}{"apiKey": []interface{}{"a", "b"}}}
		case 15:
			c = config.PluginConfig{Name: "custom-auth", Config: map[string]interface{}{"apiKey": true}}
		case 10: // the name is missing (a misspelled "name:" key decodes to this): which plugin was meant is unknown
			c = config.PluginConfig{Config: map[string]interface{}{"apiKey": "sesame"}}
		case 11:
			c = config.PluginConfig{Name: " \t", Config: map[string]interface{}{"max_request_body": 8}}
		case 12:
			c = config.PluginConfig{Name: "\u00a0"}
		case 0:
			c = config.PluginConfig{Name: "no-such-plugin"}
		case 1:
			c = config.PluginConfig{Name: "custom-auth"}
		case 2:
			c = config.PluginConfig{Name: "custom-auth", Config: map[string]interface{}{"apiKey": ""}}
		case 3:
			c = config.PluginConfig{Name: "custom-auth", Config: map[string]interface{}{"apiKey": 42}}
		case 4:
			c = config.PluginConfig{Name: "size_limit", Config: map[string]interface{}{"max_request_body": verifrt.IntRange("limit", -(1 << 40), 0)}}
		case 5:
			c = config.PluginConfig{Name: "size_limit", Config: map[string]interface{}{"max_response_body": "10MB"}}
		case 6:
			c = config.PluginConfig{Name: "headers", Config: map[string]interface{}{"set": "X-App: Helios"}}
		case 7:
			c = config.PluginConfig{Name: "headers", Config: map[string]interface{}{"request_set": map[string]interface{}{"X-From": 7}}}
		case 8:
			c = config.PluginConfig{Name: "gzip", Config: map[string]interface{}{"level": float64(verifrt.Choice("badLevel", 2)*100 - 50), "min_size": float64(0), "content_types": []interface{}{"text/html"}}}
		case 9:
			c = config.PluginConfig{Name: "gzip", Config: map[string]interface{}{"level": float64(5), "min_size": float64(0), "content_types": []interface{}{7}}}
		}
		pc.Chain = append(pc.Chain, c)
	}
	h, err := BuildChain(pc, http.HandlerFunc(func(http.ResponseWriter, *http.Request) {}))
	verifrt.Assert(err != nil, "an unknown plugin or an invalid plugin configuration makes chain construction fail")
	verifrt.Assert(h == nil, "no handler is returned without the misconfigured protection")
}

// VerifC17BuildTwice: the same PluginsConfig value is built twice (main logs
// the chain and builds it; a reload would build it again): both handlers run
// the probes in the configured order, and building leaves the configuration as
// it was written.
func VerifC17BuildTwice() {
	verifRegisterProbes()
	var pc config.PluginsConfig
	pc.Enabled = true
	order := [][]int{{0, 1, 2}, {2, 0, 1}, {1, 2, 0}}[verifrt.Choice("order", 3)]
	for p, kind := range order {
		pc.Chain = append(pc.Chain, verifPluginConfig(kind, p))
	}
	for round := 0; round < 2; round++ {
		verifTrace = nil
		h, err := BuildChain(pc, http.HandlerFunc(func(http.ResponseWriter, *http.Request) { verifTrace = append(verifTrace, 1000) }))
		verifrt.Assert(err == nil && h != nil, "a valid chain builds (again)")
		for p, kind := range order {
			verifrt.Assert(pc.Chain[p].Name == verifChainNames[kind], "building a chain leaves the configuration as it was written")
		}
		h.ServeHTTP(verifNewRecorder(), verifRequest())
		want := []int{0, 1, 2, 1000, -3, -2, -1}
		ok := len(verifTrace) == len(want)
		for i := range want {
			if i < len(verifTrace) && verifTrace[i] != want[i] {
				ok = false
			}
		}
		verifrt.Assert(ok, "every build of the same configuration runs the plugins in the configured order (first listed outermost)")
	}
}

// VerifC17AuthGate: custom-auth with ANY configured key of l bytes (including
// blank and whitespace-only spellings) against a client that presents no key or
// any key of hl bytes. Either the configuration is refused, or the plugin fails
// closed: the request passes only if the client presented exactly the configured,
// non-empty key; otherwise it is answered 401 and neither later plugins nor the
// backend see it.
func VerifC17AuthGate(l int, hl int) {
	key := verifrt.String("configuredKey", l) // any bytes: ASCII blanks, multi-byte Unicode spaces, invalid UTF-8
	var pc config.PluginsConfig
	pc.Enabled = true
	pc.Chain = []config.PluginConfig{{Name: "custom-auth", Config: map[string]interface{}{"apiKey": key}}}
	reached := false
	h, err := BuildChain(pc, http.HandlerFunc(func(http.ResponseWriter, *http.Request) { reached = true }))
	if err != nil {
		verifrt.Assert(h == nil, "no handler is returned without the misconfigured protection")
		verifrt.Reach("configuration refused")
		return
	}
	r := &http.Request{Method: "GET", Header: http.Header{}}
	presented := verifrt.Bool("clientPresentsKey")
	got := ""
	if presented {
		got = verifrt.String("presentedKey", hl)
		r.Header.Set("X-API-Key", got)
	}
	rec := verifNewRecorder()
	h.ServeHTTP(rec, r)
	match := presented && l > 0 && got == key
	verifrt.Assert(verifrt.Implies(reached, match), "custom-auth lets a request through only if the client presented exactly the configured, non-empty key")
	verifrt.Assert(verifrt.Implies(!match, rec.status == http.StatusUnauthorized), "a request without the exact key is answered 401")
}

// VerifC17Neg: negative twin - claims the LAST listed plugin is outermost.
func VerifC17Neg() {
	verifRegisterProbes()
	verifTrace = nil
	var pc config.PluginsConfig
	pc.Enabled = true
	pc.Chain = []config.PluginConfig{verifPluginConfig(0, 0), verifPluginConfig(1, 1)}
	h, _ := BuildChain(pc, http.HandlerFunc(func(http.ResponseWriter, *http.Request) {}))
	h.ServeHTTP(verifNewRecorder(), verifRequest())
	verifrt.Assert(len(verifTrace) > 0 && verifTrace[0] == 1, "NEGATIVE TWIN: last listed plugin runs first")
}

// VerifC20PluginHijack: with any stack of <= 3 wrapping plugins (logging,
// size_limit, gzip) Hijack() reaches the connection exactly once.
func VerifC20PluginHijack(k int) {
	var pc config.PluginsConfig
	pc.Enabled = true
	wrappers := []config.PluginConfig{
		{Name: "logging"},
		{Name: "size_limit", Config: map[string]interface{}{"max_request_body": 1024}},
		{Name: "gzip", Config: map[string]interface{}{"level": float64(5), "min_size": float64(0), "content_types": []interface{}{"text/html"}}},
	}
	for p := 0; p < k; p++ {
		pc.Chain = append(pc.Chain, wrappers[verifrt.Choice("wrapper", 3)])
	}
	var hijackErr error
	called := false
	base := http.HandlerFunc(func(w http.ResponseWriter, r *http.Request) {
		called = true
		h, ok := w.(http.Hijacker)
		if !ok {
			hijackErr = http.ErrNotSupported
			return
		}
		_, _, hijackErr = h.Hijack()
	})
	h, err := BuildChain(pc, base)
	verifrt.Assert(err == nil, "the wrapper chain builds")
	rec := verifNewRecorder()
	r := verifRequest()
	r.Header.Set("Accept-Encoding", "gzip")
	r.Header.Set("Upgrade", "websocket")
	h.ServeHTTP(rec, r)
	verifrt.Assert(called && hijackErr == nil && rec.hijacks == 1, "Hijack through every plugin wrapper reaches the connection exactly once")
}
