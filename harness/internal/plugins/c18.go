package plugins

import (
	"net/http"

	"github.com/0xReLogic/Helios/internal/config"
	"github.com/0xReLogic/Helios/internal/verifrt"
)

// VerifC18PluginOptions: every documented plugin option value is accepted in
// the types YAML delivers it: integer scalars arrive as int (yaml.v3), numbers
// with a fraction/exponent as float64.
func VerifC18PluginOptions() {
	level := verifrt.IntRange("gzip.level", 1, 9)
	minSize := verifrt.IntRange("gzip.min_size", 0, 1<<20)
	var lv, ms interface{} = float64(level), float64(minSize)
	if verifrt.Bool("gzip.level as YAML int") {
		lv = level
	}
	if verifrt.Bool("gzip.min_size as YAML int") {
		ms = minSize
	}
	limit := verifrt.IntRange("size_limit.max_request_body", 1, 1<<40)
	var lim interface{} = limit
	switch verifrt.Choice("size_limit type", 3) {
	case 1:
		lim = int64(limit)
	case 2:
		lim = float64(limit)
	}
	pc := config.PluginsConfig{Enabled: true, Chain: []config.PluginConfig{
		{Name: "logging"},
		{Name: "size_limit", Config: map[string]interface{}{"max_request_body": lim}},
		{Name: "gzip", Config: map[string]interface{}{"level": lv, "min_size": ms, "content_types": []interface{}{"text/html", "application/json"}}},
		{Name: "headers", Config: map[string]interface{}{"set": map[string]interface{}{"X-App": "Helios"}, "request_set": map[string]interface{}{"X-From": "LB"}}},
	}}
	h, err := BuildChain(pc, http.HandlerFunc(func(http.ResponseWriter, *http.Request) {}))
	verifrt.Assert(err == nil && h != nil, "the documented plugin options (as in the shipped helios.yaml) are accepted whether YAML delivers numbers as int or float")
}

// VerifC18PluginOmissions: a chain entry may leave out the whole config block
// (the YAML loader then delivers a nil map), give an empty one, or set only
// some options. For every built-in plugin and each of these forms chain
// construction either succeeds or fails with an error - it never panics - and
// for size_limit, whose two limits are documented with defaults (10MB / 50MB),
// every such form is accepted.
func VerifC18PluginOmissions() {
	names := []string{"logging", "size_limit", "gzip", "headers", "custom-auth", "request-id"}
	name := names[verifrt.Choice("plugin", len(names))]
	var cfg map[string]interface{}
	switch verifrt.Choice("configForm", 4) {
	case 0: // no config key at all
	case 1:
		cfg = map[string]interface{}{}
	case 2:
		cfg = map[string]interface{}{"max_request_body": 1024}
	case 3:
		cfg = map[string]interface{}{"max_response_body": 1024}
	}
	pc := config.PluginsConfig{Enabled: true, Chain: []config.PluginConfig{{Name: name, Config: cfg}}}
	h, err := BuildChain(pc, http.HandlerFunc(func(http.ResponseWriter, *http.Request) {}))
	verifrt.Assert((err == nil) == (h != nil), "chain construction yields a handler or an error, never both, never neither")
	if name == "size_limit" || name == "logging" {
		verifrt.Assert(err == nil, "plugins whose options all have documented defaults are accepted with the config block omitted, empty or partial")
	}
	if err == nil {
		rec := verifNewRecorder()
		h.ServeHTTP(rec, verifRequest())
	}
}
