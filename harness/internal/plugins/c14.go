package plugins

import (
	"io"
	"net/http"

	"github.com/0xReLogic/Helios/internal/verifrt"
)

// VerifC14Response: the size_limit plugin's response side. A well-behaved
// handler (at most one final WriteHeader, before its first Write) performs any
// script of <= k calls over {WriteHeader(c), Write(0..3 bytes), Flush}; the
// same script is applied to a bare connection as the reference.
func VerifC14Response(k int) {
	limit := verifrt.IntRange("max_response_body", 1, 8)
	mw, err := newSizeLimitMiddleware("size_limit", map[string]interface{}{"max_response_body": limit})
	verifrt.Assert(err == nil, "a positive limit is accepted")
	rec, ref := verifNewRecorder(), verifNewRecorder()
	total := 0
	overflowBeforeAnythingSent := false
	overflow := false
	explicitStatus := 0
	wroteAny := false
	// a bodiless response (HEAD, 304) may legitimately declare the length of the entity it does not send
	declared := []string{"", "1", "4", "9", "1000000"}[verifrt.Choice("declaredContentLength", 5)]
	interimFirst := verifrt.Bool("interim103BeforeTheFinalStatus")
	h := mw(http.HandlerFunc(func(w http.ResponseWriter, r *http.Request) {
		w.Header().Set("Content-Type", "text/plain")
		ref.Header().Set("Content-Type", "text/plain")
		if declared != "" {
			w.Header().Set("Content-Length", declared)
			ref.Header().Set("Content-Length", declared)
		}
		if interimFirst {
			// an informational response precedes the final one (as ReverseProxy forwards a backend's 103)
			w.WriteHeader(http.StatusEarlyHints)
			ref.WriteHeader(http.StatusEarlyHints)
		}
		for i := 0; i < k; i++ {
			switch verifrt.Choice("call", 4) {
			case 0:
				if explicitStatus != 0 || wroteAny {
					continue // well-behaved handler: one WriteHeader, before the first Write
				}
				explicitStatus = verifrt.IntRange("status", 200, 599)
				w.WriteHeader(explicitStatus)
				ref.WriteHeader(explicitStatus)
			case 1:
				if declared != "" {
					continue // with a declared entity length this harness models the bodiless (HEAD / 304) exchange
				}
				n := verifrt.Choice("len", 4)
				if !overflow && total+n > limit {
					overflow = true
					overflowBeforeAnythingSent = !rec.wroteHeader
				}
				w.Write([]byte(verifPayload[total : total+n]))
				ref.Write([]byte(verifPayload[total : total+n]))
				total += n
				wroteAny = true
			case 2:
				w.(http.Flusher).Flush()
				ref.Flush()
			case 3:
				verifrt.Reach("no-op")
			}
		}
	}))
	h.ServeHTTP(rec, verifRequest())
	rec.finish()
	ref.finish()

	verifrt.Assert(len(rec.body) <= limit, "the client never receives more than max_response_body bytes")
	verifrt.Assert(verifrt.Implies(overflowBeforeAnythingSent, rec.status == http.StatusRequestEntityTooLarge), "excess detected before anything was sent: the client gets 413")
	if !overflow {
		st := explicitStatus
		if st == 0 {
			st = 200
		}
		verifrt.Assert(rec.status == ref.status, "within the limit the status code passes through unchanged (also for bodiless responses)")
		verifrt.Assert(string(rec.body) == string(ref.body), "within the limit the body passes through unchanged")
		verifrt.Assert(rec.wire.Get("Content-Type") == "text/plain" && rec.wire.Get("Content-Length") == declared && len(rec.wire) == len(ref.wire), "within the limit the headers pass through unchanged")
		verifrt.Assert(rec.flushes == ref.flushes, "within the limit flushes pass through")
	}
}

// VerifC14Reuse: ONE size_limit middleware instance serves two responses in a
// row (any sizes 0..6 in <= 2 writes each, any limit 1..4). Each exchange is
// judged on its own: within the limit it passes through unchanged, above it the
// client never gets more than the limit - whatever the previous exchange on the
// same instance did (pooled or cached per-instance state must not leak).
func VerifC14Reuse() {
	limit := verifrt.IntRange("max_response_body", 1, 4)
	mw, err := newSizeLimitMiddleware("size_limit", map[string]interface{}{"max_response_body": limit})
	verifrt.Assert(err == nil, "a positive limit is accepted")
	var sizes, firsts [2]int
	cur := 0
	h := mw(http.HandlerFunc(func(w http.ResponseWriter, r *http.Request) {
		w.Header().Set("Content-Type", "text/plain")
		n := sizes[cur]
		first := n
		if n > 1 && verifrt.Bool("twoWrites") {
			first = 1
		}
		firsts[cur] = first
		if first > 0 {
			w.Write([]byte(verifPayload[:first]))
		}
		if n > first {
			w.Write([]byte(verifPayload[first:n]))
		}
	}))
	for i := 0; i < 2; i++ {
		cur = i
		sizes[i] = verifrt.Choice("bodySize", 7)
		rec := verifNewRecorder()
		h.ServeHTTP(rec, verifRequest())
		rec.finish()
		verifrt.Assert(len(rec.body) <= limit, "the client never receives more than max_response_body bytes (request after request)")
		if sizes[i] <= limit {
			verifrt.Assert(rec.status == http.StatusOK && string(rec.body) == verifPayload[:sizes[i]], "an exchange within the limit passes through unchanged, whatever the previous exchange on the same plugin instance did")
		}
		if firsts[i] > limit {
			verifrt.Assert(rec.status == http.StatusRequestEntityTooLarge && len(rec.body) == 0, "a response whose first write already exceeds the limit is answered 413 - every time, also right after another violation on the same plugin instance")
		}
	}
}

// verifBody is a request body of n bytes delivered in chunks.
type verifBody struct {
	left   int
	closed bool
}

func (b *verifBody) Read(p []byte) (int, error) {
	if b.left == 0 {
		return 0, io.EOF
	}
	n := len(p)
	if n > b.left {
		n = b.left
	}
	if n > 2 {
		n = 2
	}
	for i := 0; i < n; i++ {
		p[i] = 'x'
	}
	b.left -= n
	return n, nil
}
func (b *verifBody) Close() error { b.closed = true; return nil }

// VerifC14Request: the request side. Declared (Content-Length) or chunked
// bodies of 0..5 bytes against any limit 1..4, under nine request methods.
func VerifC14Request() {
	limit := verifrt.IntRange("max_request_body", 1, 4)
	mw, err := newSizeLimitMiddleware("size_limit", map[string]interface{}{"max_request_body": limit})
	verifrt.Assert(err == nil, "a positive limit is accepted")
	size := verifrt.Choice("bodySize", 6)
	chunked := verifrt.Bool("chunked")
	r := verifRequest()
	// any method may carry a body on the wire (a GET or DELETE with a chunked body is legal HTTP): the limit is about bytes, not verbs
	r.Method = []string{"POST", "PUT", "PATCH", "DELETE", "GET", "HEAD", "OPTIONS", "TRACE", "PROPFIND"}[verifrt.Choice("method", 9)]
	r.Body = &verifBody{left: size}
	if chunked {
		r.ContentLength = -1
	} else {
		r.ContentLength = int64(size)
	}
	called := false
	delivered := 0
	var readErr error
	h := mw(http.HandlerFunc(func(w http.ResponseWriter, rq *http.Request) {
		called = true
		buf := make([]byte, 3)
		for i := 0; i < 8; i++ {
			n, err := rq.Body.Read(buf)
			delivered += n
			if err != nil {
				if err != io.EOF {
					readErr = err
				}
				break
			}
		}
		w.WriteHeader(http.StatusOK)
	}))
	rec := verifNewRecorder()
	h.ServeHTTP(rec, r)
	rec.finish()
	declaredTooLarge := !chunked && size > limit
	verifrt.Assert(verifrt.Implies(declaredTooLarge, !called && rec.status == http.StatusRequestEntityTooLarge), "a request declaring more than max_request_body is rejected with 413 before any backend is contacted")
	verifrt.Assert(verifrt.Implies(size <= limit, called && delivered == size && readErr == nil && rec.status == http.StatusOK), "a body within the limit (including exactly the limit) passes untouched")
	verifrt.Assert(delivered <= limit, "the backend never receives more than max_request_body bytes")
}

// VerifC14Options: option values typed int / int64 as YAML delivers them:
// accepted exactly when positive.
func VerifC14Options() {
	v := verifrt.Int("value")
	var cfg map[string]interface{}
	key := "max_request_body"
	if verifrt.Bool("responseKey") {
		key = "max_response_body"
	}
	if verifrt.Bool("asInt64") {
		cfg = map[string]interface{}{key: int64(v)}
	} else {
		cfg = map[string]interface{}{key: v}
	}
	mw, err := newSizeLimitMiddleware("size_limit", cfg)
	verifrt.Assert((err == nil) == (v > 0), "a byte limit is accepted exactly when it is positive")
	verifrt.Assert((mw != nil) == (err == nil), "a middleware is returned exactly when the options are valid")
}

// VerifC14Neg: negative twin - claims bodies are delivered even beyond the limit.
func VerifC14Neg() {
	limit := verifrt.IntRange("max_response_body", 1, 3)
	mw, _ := newSizeLimitMiddleware("size_limit", map[string]interface{}{"max_response_body": limit})
	rec := verifNewRecorder()
	mw(http.HandlerFunc(func(w http.ResponseWriter, r *http.Request) { w.Write([]byte("abcd")) })).ServeHTTP(rec, verifRequest())
	rec.finish()
	verifrt.Assert(len(rec.body) == 4, "NEGATIVE TWIN: body delivered beyond the limit")
}
