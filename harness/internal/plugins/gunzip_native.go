package plugins

import (
	"bytes"
	"compress/gzip"
	"io"
)

// verifGunzip decodes a real gzip stream (exactly one member, nothing after it).
func verifGunzip(b []byte) ([]byte, bool) {
	zr, err := gzip.NewReader(bytes.NewReader(b))
	if err != nil {
		return nil, false
	}
	zr.Multistream(false)
	out, err := io.ReadAll(zr)
	if err != nil {
		return nil, false
	}
	return out, true
}
