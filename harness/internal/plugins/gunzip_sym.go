package plugins

// verifGunzip decodes the abstract gzip token the executor's encoder model
// emits: 1f 8b '[' data ']' (exactly one stream).
func verifGunzip(b []byte) ([]byte, bool) {
	if len(b) < 4 || b[0] != 0x1f || b[1] != 0x8b || b[2] != '[' || b[len(b)-1] != ']' {
		return nil, false
	}
	inner := b[3 : len(b)-1]
	for _, c := range inner {
		if c == 0x1f || c == '[' || c == ']' {
			return nil, false
		}
	}
	return inner, true
}
