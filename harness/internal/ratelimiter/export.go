package ratelimiter

import "time"

// VerifCleanup exposes the limiter's cleanup pass to harnesses in other packages.
func VerifCleanup(rl *TokenBucketRateLimiter) { rl.cleanup() }

// VerifNewLimiter builds the limiter state directly (no cleanup goroutine).
func VerifNewLimiter(max int, refill time.Duration) *TokenBucketRateLimiter {
	return verifLimiter(max, refill)
}
