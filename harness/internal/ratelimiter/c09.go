package ratelimiter

import (
	"time"

	"github.com/0xReLogic/Helios/internal/verifrt"
)

// verifLimiter builds the limiter state directly (no cleanup goroutine).
func verifLimiter(max int, refill time.Duration) *TokenBucketRateLimiter {
	return &TokenBucketRateLimiter{maxTokens: max, refillRate: refill, cleanupTick: 10 * time.Minute}
}

// VerifC09Invariant: one Allow from an arbitrary invariant bucket state.
func VerifC09Invariant() {
	max := verifrt.IntRange("max", 1, 1<<20)
	refill := time.Duration(verifrt.IntRange("refill", 1, 1<<50))
	rl := verifLimiter(max, refill)
	tok := verifrt.IntRange("tok0", 0, max)
	age := time.Duration(verifrt.IntRange("age", 0, 1<<55))
	now := verifrt.Now()
	b := &bucket{tokens: tok, lastRefill: now.Add(-age)}
	rl.buckets.Store("c", b)

	ok := rl.Allow("c")

	add := int(age / refill)
	exp := tok
	if add > 0 {
		exp = tok + add
		if exp > max {
			exp = max
		}
	}
	verifrt.Assert(ok == (exp > 0), "admitted iff a token is available after refill")
	after := exp
	if ok {
		after = exp - 1
	}
	verifrt.Assert(b.tokens == after, "tokens follow the documented rule")
	verifrt.Assert(0 <= b.tokens && b.tokens <= max, "0 <= tokens <= max preserved")
	verifrt.Assert(!b.lastRefill.After(verifrt.Now()), "lastRefill <= now preserved")
}
