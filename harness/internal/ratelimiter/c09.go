package ratelimiter

import (
	"strconv"
	"sync/atomic"
	"time"

	"github.com/0xReLogic/Helios/internal/verifrt"
)

// verifLimiter builds the limiter state directly (no cleanup goroutine).
func verifLimiter(max int, refill time.Duration) *TokenBucketRateLimiter {
	return &TokenBucketRateLimiter{maxTokens: max, refillRate: refill, cleanupTick: 10 * time.Minute}
}

// VerifC09Invariant: one Allow from an arbitrary invariant bucket state.
func VerifC09Invariant() {
	max := verifrt.IntRange("max", 1, 1<<20)
	refill := time.Duration(verifrt.IntRange("refill", 1, 1<<50))
	rl := verifLimiter(max, refill)
	tok := verifrt.IntRange("tok0", 0, max)
	age := time.Duration(verifrt.IntRange("age", 0, 1<<55))
	now := verifrt.Now()
	b := &bucket{tokens: tok, lastRefill: now.Add(-age)}
	rl.buckets.Store("c", b)

	ok := rl.Allow("c")

	add := int(age / refill)
	exp := tok
	if add > 0 {
		exp = tok + add
		if exp > max {
			exp = max
		}
	}
	verifrt.Assert(ok == (exp > 0), "admitted iff a token is available after refill")
	after := exp
	if ok {
		after = exp - 1
	}
	verifrt.Assert(b.tokens == after, "tokens follow the documented rule")
	verifrt.Assert(0 <= b.tokens && b.tokens <= max, "0 <= tokens <= max preserved")
	verifrt.Assert(!b.lastRefill.After(verifrt.Now()), "lastRefill <= now preserved")
}

// verifRefill: mode 0 = any refill period in 1ns..2^40ns (symbolic divisor);
// mode 1 = one of the periods {1s, 3s} (constant divisor, deeper histories).
func verifRefill(mode int) time.Duration {
	if mode == 0 {
		return time.Duration(verifrt.IntRange("refill", 1, 1<<40))
	}
	if verifrt.Choice("refillSel", 2) == 0 {
		return time.Second
	}
	return 3 * time.Second
}

// verifArbBucket installs a bucket in an arbitrary state satisfying the
// representation invariant 0 <= tokens <= max, lastRefill <= now.
func verifArbBucket(rl *TokenBucketRateLimiter, client string, max int) *bucket {
	tok := verifrt.IntRange("tok0", 0, max)
	age := time.Duration(verifrt.IntRange("age", 0, 1<<50))
	b := &bucket{tokens: tok, lastRefill: verifrt.Now().Add(-age)}
	rl.buckets.Store(client, b)
	return b
}

// VerifC09Window: k calls at arbitrary non-decreasing instants from an
// arbitrary invariant state; every sub-window i..j admits at most
// max + floor((tj-ti)/refill) + 1 requests. slack=1 is the property, slack=0
// the negative twin.
func VerifC09Window(k int, slack int, refillMode int) {
	max := verifrt.IntRange("max", 1, 5)
	refill := verifRefill(refillMode)
	rl := verifLimiter(max, refill)
	verifArbBucket(rl, "c", max)
	var at [8]int64
	var adm [8]int
	t := int64(0)
	for i := 0; i < k; i++ {
		dt := verifrt.IntRange("dt", 0, 1<<42)
		verifrt.Advance(time.Duration(dt))
		t += int64(dt)
		at[i] = t
		if rl.Allow("c") {
			adm[i] = 1
		}
	}
	for i := 0; i < k; i++ {
		n := 0
		for j := i; j < k; j++ {
			n += adm[j]
			bound := int64(max) + (at[j]-at[i])/int64(refill) + int64(slack)
			verifrt.Assert(int64(n) <= bound, "admitted in any window <= max + floor(T/refill) + 1")
		}
	}
}

// VerifC09Burst: a client never seen before gets exactly max admissions at
// one instant and is then denied (created through the real getOrCreateBucket).
func VerifC09Burst(max int) {
	refill := time.Duration(verifrt.IntRange("refill", 1, 1<<40))
	rl := verifLimiter(max, refill)
	for i := 0; i < max; i++ {
		verifrt.Assert(rl.Allow("new"), "new client: first max requests admitted")
	}
	verifrt.Assert(!rl.Allow("new"), "new client: request max+1 at the same instant denied")
	// less than one refill period later it is still denied
	dt := verifrt.IntRange("dt", 0, 1<<40)
	verifrt.Assume(int64(dt) < int64(refill))
	verifrt.Advance(time.Duration(dt))
	verifrt.Assert(!rl.Allow("new"), "still denied before one refill period has passed")
}

// VerifC09Idle: after k refill periods of silence at least min(k,max) more
// requests are admitted, from any invariant state.
func VerifC09Idle(k int) {
	max := verifrt.IntRange("max", 1, 5)
	refillNs := verifrt.IntRange("refill", 1, 1<<36)
	rl := verifLimiter(max, time.Duration(refillNs))
	verifArbBucket(rl, "c", max)
	extra := verifrt.IntRange("extra", 0, 1<<36)
	verifrt.Advance(time.Duration(k*refillNs + extra))
	want := k
	for i := 0; i < 5; i++ {
		if i < k {
			ok := rl.Allow("c")
			verifrt.Assert(verifrt.Or(i >= max, ok), "after k idle periods min(k,max) requests are admitted")
		}
	}
	_ = want
}

// VerifC09Isolation (2-safety): client A's admissions are the same whether or
// not client B's calls are interleaved.
func VerifC09Isolation(k int, refillMode int) {
	max := verifrt.IntRange("max", 1, 5)
	refill := verifRefill(refillMode)
	both := verifLimiter(max, refill)
	alone := verifLimiter(max, refill)
	tokA := verifrt.IntRange("tokA", 0, max)
	ageA := time.Duration(verifrt.IntRange("ageA", 0, 1<<50))
	both.buckets.Store("A", &bucket{tokens: tokA, lastRefill: verifrt.Now().Add(-ageA)})
	alone.buckets.Store("A", &bucket{tokens: tokA, lastRefill: verifrt.Now().Add(-ageA)})
	if verifrt.Bool("bKnown") {
		tokB := verifrt.IntRange("tokB", 0, max)
		ageB := time.Duration(verifrt.IntRange("ageB", 0, 1<<50))
		both.buckets.Store("B", &bucket{tokens: tokB, lastRefill: verifrt.Now().Add(-ageB)})
	}
	for i := 0; i < k; i++ {
		verifrt.Advance(time.Duration(verifrt.IntRange("dt", 0, 1<<42)))
		if verifrt.Choice("who", 2) == 0 {
			r1 := both.Allow("A")
			r2 := alone.Allow("A")
			verifrt.Assert(r1 == r2, "A's verdict does not depend on B's traffic")
		} else {
			both.Allow("B")
		}
	}
}

// VerifC09Cleanup: the cleanup pass only ever removes buckets idle for more
// than an hour, so a removed client restarts with a full burst (consistent
// with the idle clause) and a recently used bucket keeps its state.
func VerifC09Cleanup() {
	max := verifrt.IntRange("max", 1, 5)
	refill := time.Duration(verifrt.IntRange("refill", 1, 1<<40))
	rl := verifLimiter(max, refill)
	tok := verifrt.IntRange("tok0", 0, max)
	age := time.Duration(verifrt.IntRange("age", 0, 1<<50))
	b := &bucket{tokens: tok, lastRefill: verifrt.Now().Add(-age)}
	rl.buckets.Store("c", b)
	rl.cleanup()
	v, present := rl.buckets.Load("c")
	verifrt.Assert(verifrt.Implies(age <= time.Hour, present), "bucket used within the last hour survives cleanup")
	if present {
		verifrt.Assert(v.(*bucket) == b && b.tokens == tok, "surviving bucket is unchanged")
	}
}

// VerifC09ConcurrentRefill: an exhausted bucket with exactly k refill periods
// elapsed (k = 1..2, max 3) and n concurrent requests of that client: exactly
// min(n, k) are admitted - the elapsed period is credited once, however the
// requests interleave around the refill.
func VerifC09ConcurrentRefill(n int) {
	refill := time.Second
	rl := verifLimiter(3, refill)
	k := verifrt.IntRange("elapsedPeriods", 1, 2)
	rl.buckets.Store("c", &bucket{tokens: 0, lastRefill: verifrt.Now().Add(-time.Duration(k) * refill)})
	var admitted int32
	for i := 0; i < n; i++ {
		verifrt.Go(func() {
			if rl.Allow("c") {
				atomic.AddInt32(&admitted, 1)
			}
		})
	}
	verifrt.WaitAll()
	want := n
	if k < n {
		want = k
	}
	verifrt.Assert(int(atomic.LoadInt32(&admitted)) == want, "concurrent requests around a refill: the elapsed periods are credited exactly once")
}

// VerifC09ManyClients: n clients with exhausted buckets used within the last
// hour; a cleanup pass keeps every one of them (a client whose bucket is
// dropped would get a fresh burst), whatever the size of the table.
func VerifC09ManyClients(n int) {
	max := verifrt.IntRange("max", 1, 5)
	rl := verifLimiter(max, time.Hour)
	age := time.Duration(verifrt.IntRange("age", 0, int(time.Hour)))
	names := make([]string, n)
	for i := 0; i < n; i++ {
		names[i] = "10.0." + strconv.Itoa(i/256) + "." + strconv.Itoa(i%256)
		rl.buckets.Store(names[i], &bucket{tokens: 0, lastRefill: verifrt.Now().Add(-age)})
	}
	rl.cleanup()
	kept := 0
	for i := 0; i < n; i++ {
		if _, ok := rl.buckets.Load(names[i]); ok {
			kept++
		}
	}
	verifrt.Assert(kept == n, "every bucket used within the last hour survives cleanup, however many clients are tracked")
	verifrt.Assert(!rl.Allow(names[n-1]) || age >= time.Hour, "a client that had exhausted its burst is not handed a fresh one by cleanup")
}

// VerifC09Concurrent: n goroutines hit one client's bucket simultaneously.
// existing != 0: the bucket holds t tokens; existing == 0: the client is new
// (both first requests must share one bucket): admissions never exceed the
// tokens available, under every interleaving.
func VerifC09Concurrent(n int, existing int, max int) {
	rl := verifLimiter(max, time.Second)
	t := max
	if existing != 0 {
		t = verifrt.IntRange("tokens", 0, max)
		rl.buckets.Store("c", &bucket{tokens: t, lastRefill: verifrt.Now()})
	}
	var admitted int32
	for i := 0; i < n; i++ {
		verifrt.Go(func() {
			if rl.Allow("c") {
				atomic.AddInt32(&admitted, 1)
			}
		})
	}
	verifrt.WaitAll()
	got := int(atomic.LoadInt32(&admitted))
	verifrt.Assert(got <= t, "concurrent requests never spend a token twice")
	want := n
	if t < n {
		want = t
	}
	verifrt.Assert(got == want, "exactly min(requests, tokens) are admitted, whatever the interleaving")
}
