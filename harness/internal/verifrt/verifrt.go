// Package verifrt is the harness run-time API. Under the symbolic executor
// (symgo) every function here is intercepted; the bodies below are the NATIVE
// implementation used to replay a solver-produced input vector against the real
// build, and to produce observation traces for translator validation.
package verifrt

import (
	"encoding/json"
	"fmt"
	"os"
	"runtime"
	"strconv"
	"sync"
	"sync/atomic"
	"time"
)

type input struct {
	Name string `json:"name"`
	Kind string `json:"kind"`
	W    int    `json:"w"`
	V    string `json:"v"`
}

type vector struct {
	Inputs []input `json:"inputs"`
}

// AssertFailure is the panic value raised by a failing Assert.
type AssertFailure struct{ Label string }

// AssumeFailure is raised when the vector does not satisfy an assumption.
type AssumeFailure struct{ What string }

var (
	vec      vector
	pos      int
	clock    int64 = 1 << 60
	Trace    []string
	loaded   bool
	Diverged string
)

// Load reads an input vector (JSON file).
func Load(path string) error {
	data, err := os.ReadFile(path)
	if err != nil {
		return err
	}
	return LoadBytes(data)
}

func LoadBytes(data []byte) error {
	vec = vector{}
	if err := json.Unmarshal(data, &vec); err != nil {
		return err
	}
	Reset()
	loaded = true
	return nil
}

// LoadValues installs a vector of raw values (translator validation).
func LoadValues(vals []uint64) {
	vec = vector{}
	for _, v := range vals {
		vec.Inputs = append(vec.Inputs, input{V: strconv.FormatUint(v, 10)})
	}
	Reset()
	loaded = true
}

func Reset() {
	pos = 0
	clock = 1 << 60
	Trace = nil
	Diverged = ""
}

func next(name string, w int) uint64 {
	if pos >= len(vec.Inputs) {
		pos++
		return 0
	}
	in := vec.Inputs[pos]
	pos++
	v, _ := strconv.ParseUint(in.V, 10, 64)
	if w > 0 && w < 64 {
		v &= (1 << uint(w)) - 1
	}
	return v
}

func Int(name string) int       { return int(next(name, 64)) }
func Int64(name string) int64   { return int64(next(name, 64)) }
func Int32(name string) int32   { return int32(next(name, 32)) }
func Uint64(name string) uint64 { return next(name, 64) }
func Uint32(name string) uint32 { return uint32(next(name, 32)) }
func Byte(name string) byte     { return byte(next(name, 8)) }
func Bool(name string) bool     { return next(name, 1)&1 == 1 }

// IntRange returns an integer constrained to lo..hi.
func IntRange(name string, lo, hi int) int {
	v := Int(name)
	Assume(lo <= v && v <= hi)
	return v
}

// Choice returns a value in 0..n-1; the symbolic executor forks on it so the
// result is concrete on every path.
func Choice(name string, n int) int {
	v := int(next(name, 64))
	Assume(0 <= v && v < n)
	return v
}

// String returns a string of exactly n arbitrary bytes.
func String(name string, n int) string {
	b := make([]byte, n)
	for i := range b {
		b[i] = byte(next(name, 8))
	}
	return string(b)
}

func Assume(c bool) {
	if !c {
		panic(AssumeFailure{"assumption not satisfied by the vector"})
	}
}

func Assert(c bool, label string) {
	if !c {
		Trace = append(Trace, "ASSERT-FAIL "+label)
		panic(AssertFailure{label})
	}
}

// Known names the shape of a recorded defect (see known_findings.txt).
func Known(id string, c bool) {}

func And(a, b bool) bool     { return a && b }
func Or(a, b bool) bool      { return a || b }
func Not(a bool) bool        { return !a }
func Implies(a, b bool) bool { return !a || b }

// IteInt selects without branching.
func IteInt(c bool, a, b int) int {
	if c {
		return a
	}
	return b
}

// Virtual clock. Natively the repository's time.Now / time.Since calls are
// redirected here by the replay overlay.
func Now() time.Time                  { return time.Unix(0, clock) }
func Since(t time.Time) time.Duration { return Now().Sub(t) }
func Advance(d time.Duration) {
	if d < 0 {
		panic(AssumeFailure{"negative Advance"})
	}
	clock += int64(d)
}

// Observe appends to the observation trace compared by translator validation.
func Observe(label string, vals ...int64) {
	s := label
	for _, v := range vals {
		s += " " + strconv.FormatInt(v, 10)
	}
	Trace = append(Trace, s)
}

func ObserveBool(label string, b bool) {
	if b {
		Observe(label, 1)
	} else {
		Observe(label, 0)
	}
}

func ObserveStr(label, s string) { Trace = append(Trace, label+" "+strconv.Quote(s)) }

func Reach(label string) {}

// SymIP tells the executor's net.ParseIP model that the marker string parses
// to the given (symbolic) address bytes; natively the harness passes the real
// textual address, so this is a no-op.
func SymIP(marker string, ip []byte) {}

// RandDrawsEqual: under the symbolic executor, "the first two crypto/rand.Read
// draws returned identical bytes"; natively the draws are real randomness.
func RandDrawsEqual() bool { return false }

// Concrete makes v concrete by case splitting over lo..hi.
func Concrete(v, lo, hi int) int {
	Assume(lo <= v && v <= hi)
	return v
}

// ---------------------------------------------------------------- threads
//
// Under the symbolic executor Go/Yield/WaitAll are scheduling points of its
// own scheduler (every interleaving at lock/atomic granularity within the
// pre-emption bound). Natively they are real goroutines: a native replay of a
// schedule-dependent counterexample is run under the race detector and
// repeated, it is not schedule-exact.
var threads sync.WaitGroup

func Go(f func()) {
	threads.Add(1)
	go func() {
		defer threads.Done()
		defer func() {
			if r := recover(); r != nil {
				threadPanics.Store(r)
			}
		}()
		f()
	}()
}

var threadPanics atomic.Value

func Yield() { runtime.Gosched() }

// WaitAll joins every goroutine started with Go.
func WaitAll() {
	threads.Wait()
	if r := threadPanics.Load(); r != nil {
		threadPanics = atomic.Value{}
		panic(r)
	}
}

// Run executes a harness natively and classifies the outcome.
// It returns "pass", "assert:<label>", "assume", or "panic:<value>".
func Run(f func()) (outcome string) {
	defer func() {
		if r := recover(); r != nil {
			switch x := r.(type) {
			case AssertFailure:
				outcome = "assert:" + x.Label
			case AssumeFailure:
				outcome = "assume"
			default:
				outcome = fmt.Sprintf("panic:%v", r)
				Trace = append(Trace, "EVENT panic unrecovered panic")
			}
		}
	}()
	f()
	return "pass"
}
