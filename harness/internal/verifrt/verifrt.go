// Package verifrt is the harness run-time API. Under the symbolic executor
// (symgo) every function here is intercepted; the bodies below are the NATIVE
// implementation used to replay a solver-produced input vector against the real
// build, and to produce observation traces for translator validation.
package verifrt

import (
	"encoding/json"
	"fmt"
	"os"
	"runtime"
	"strconv"
	"sync"
	"sync/atomic"
	"time"
)

type input struct {
	Name string `json:"name"`
	Kind string `json:"kind"`
	W    int    `json:"w"`
	V    string `json:"v"`
}

type vector struct {
	Inputs []input `json:"inputs"`
}

// AssertFailure is the panic value raised by a failing Assert.
type AssertFailure struct{ Label string }

// AssumeFailure is raised when the vector does not satisfy an assumption.
type AssumeFailure struct{ What string }

var (
	vec      vector
	pos      int
	clock    int64 = 1 << 60
	Trace    []string
	loaded   bool
	Diverged string
)

// Load reads an input vector (JSON file).
func Load(path string) error {
	data, err := os.ReadFile(path)
	if err != nil {
		return err
	}
	return LoadBytes(data)
}

func LoadBytes(data []byte) error {
	vec = vector{}
	if err := json.Unmarshal(data, &vec); err != nil {
		return err
	}
	Reset()
	loaded = true
	return nil
}

// LoadValues installs a vector of raw values (translator validation).
func LoadValues(vals []uint64) {
	vec = vector{}
	for _, v := range vals {
		vec.Inputs = append(vec.Inputs, input{V: strconv.FormatUint(v, 10)})
	}
	Reset()
	loaded = true
}

func Reset() {
	pos = 0
	clock = 1 << 60
	Trace = nil
	Diverged = ""
}

func next(name string, w int) uint64 {
	if pos >= len(vec.Inputs) {
		pos++
		return 0
	}
	in := vec.Inputs[pos]
	pos++
	v, _ := strconv.ParseUint(in.V, 10, 64)
	if w > 0 && w < 64 {
		v &= (1 << uint(w)) - 1
	}
	return v
}

func Int(name string) int       { return int(next(name, 64)) }
func Int64(name string) int64   { return int64(next(name, 64)) }
func Int32(name string) int32   { return int32(next(name, 32)) }
func Uint64(name string) uint64 { return next(name, 64) }
func Uint32(name string) uint32 { return uint32(next(name, 32)) }
func Byte(name string) byte     { return byte(next(name, 8)) }
func Bool(name string) bool     { return next(name, 1)&1 == 1 }

// IntRange returns an integer constrained to lo..hi.
func IntRange(name string, lo, hi int) int {
	v := Int(name)
	Assume(lo <= v && v <= hi)
	return v
}

// Choice returns a value in 0..n-1; the symbolic executor forks on it so the
// result is concrete on every path.
func Choice(name string, n int) int {
	v := int(next(name, 64))
	Assume(0 <= v && v < n)
	return v
}

// String returns a string of exactly n arbitrary bytes.
func String(name string, n int) string {
	b := make([]byte, n)
	for i := range b {
		b[i] = byte(next(name, 8))
	}
	return string(b)
}

func Assume(c bool) {
	if !c {
		panic(AssumeFailure{"assumption not satisfied by the vector"})
	}
}

func Assert(c bool, label string) {
	if !c {
		Trace = append(Trace, "ASSERT-FAIL "+label)
		panic(AssertFailure{label})
	}
}

// Known names the shape of a recorded defect (see known_findings.txt).
func Known(id string, c bool) {}

func And(a, b bool) bool     { return a && b }
func Or(a, b bool) bool      { return a || b }
func Not(a bool) bool        { return !a }
func Implies(a, b bool) bool { return !a || b }

// IteInt selects without branching.
func IteInt(c bool, a, b int) int {
	if c {
		return a
	}
	return b
}

// Virtual clock. Natively the repository's time.Now / time.Since calls are
// redirected here by the replay overlay.
func Now() time.Time                  { return time.Unix(0, clock) }
func Since(t time.Time) time.Duration { return Now().Sub(t) }
func Advance(d time.Duration) {
	if d < 0 {
		panic(AssumeFailure{"negative Advance"})
	}
	clock += int64(d)
}

// Stopwatch measures how much time an operation needed. Under the executor it
// is virtual time (which passes only through Advance, or when every thread is
// blocked and the earliest pending timer fires); natively it is real time.
type Stopwatch struct{ real time.Time }

func StartStopwatch() Stopwatch         { return Stopwatch{real: time.Now()} }
func Elapsed(s Stopwatch) time.Duration { return time.Since(s.real) }

// Observe appends to the observation trace compared by translator validation.
func Observe(label string, vals ...int64) {
	s := label
	for _, v := range vals {
		s += " " + strconv.FormatInt(v, 10)
	}
	Trace = append(Trace, s)
}

func ObserveBool(label string, b bool) {
	if b {
		Observe(label, 1)
	} else {
		Observe(label, 0)
	}
}

func ObserveStr(label, s string) { Trace = append(Trace, label+" "+strconv.Quote(s)) }

func Reach(label string) {}

// SymIP tells the executor's net.ParseIP model that the marker string parses
// to the given (symbolic) address bytes; natively the harness passes the real
// textual address, so this is a no-op.
func SymIP(marker string, ip []byte) {}

// RandDrawsEqual: under the symbolic executor, "the first two crypto/rand.Read
// draws returned identical bytes"; natively the draws are real randomness.
func RandDrawsEqual() bool { return false }

// Concrete makes v concrete by case splitting over lo..hi.
func Concrete(v, lo, hi int) int {
	Assume(lo <= v && v <= hi)
	return v
}

// ---------------------------------------------------------------- threads
//
// Under the symbolic executor Go/Yield/WaitAll (and every lock acquisition,
// atomic, ...) are scheduling points of its own scheduler. Natively there are
// two modes:
//   - free mode (default): real goroutines, used under `go test -race` for
//     data-race counterexamples;
//   - scheduled mode (Scheduled = true): a cooperative scheduler. Exactly one
//     registered goroutine runs at a time; scheduling points are Go, Yield,
//     WaitAll and every mutex acquisition of the repository (the replay
//     overlay rewrites `x.Lock()` / `x.RLock()` statements into Lock(&x) /
//     RLock(&x)). The next thread is chosen by a seeded PRNG, so a replay
//     searches schedules: a schedule-dependent counterexample is confirmed
//     when some seed makes the same assertion fail on the real code.
var (
	Scheduled bool
	schedRand uint64
	schedMu   sync.Mutex
	schedTh   []*nthread
	schedCur  *nthread
	threads   sync.WaitGroup
	thPanic   atomic.Value
)

type nthread struct {
	wake chan struct{}
	done bool
	goid uint64
	wait *int32 // the flag the thread is parked on in WaitFor, if any
}

// goid identifies the calling goroutine (parsed from the stack header; replay-only code).
func goid() uint64 {
	var buf [64]byte
	n := runtime.Stack(buf[:], false)
	// "goroutine 123 [running]:"
	var id uint64
	for _, c := range buf[len("goroutine "):n] {
		if c < '0' || c > '9' {
			break
		}
		id = id*10 + uint64(c-'0')
	}
	return id
}

// registered reports whether the caller is one of the scheduler's threads.
// Goroutines that the repository spawns itself (probe goroutines, janitors)
// are not: for them scheduling points are no-ops and locks are plain locks.
func registered() bool {
	g := goid()
	schedMu.Lock()
	defer schedMu.Unlock()
	for _, t := range schedTh {
		if t.goid == g {
			return true
		}
	}
	return false
}

// SeedSchedule resets the cooperative scheduler for one attempt.
func SeedSchedule(seed uint64) {
	schedRand = seed*2862933555777941757 + 3037000493
	main := &nthread{wake: make(chan struct{}, 1), goid: goid()}
	schedMu.Lock()
	schedTh = []*nthread{main}
	schedMu.Unlock()
	schedCur = main
	thPanic = atomic.Value{}
}

func schedNext() uint64 {
	schedRand ^= schedRand << 13
	schedRand ^= schedRand >> 7
	schedRand ^= schedRand << 17
	return schedRand
}

// schedSwitch hands the baton to a randomly chosen live thread (possibly the caller).
func schedSwitch(excludeSelf bool) {
	me := schedCur
	var live []*nthread
	schedMu.Lock()
	all := append([]*nthread{}, schedTh...)
	schedMu.Unlock()
	for _, t := range all {
		if !t.done && !(excludeSelf && t == me) {
			live = append(live, t)
		}
	}
	if len(live) == 0 {
		if excludeSelf {
			return // nobody else can run: the caller keeps spinning (real deadlock is caught by the spin bound)
		}
		return
	}
	next := live[schedNext()%uint64(len(live))]
	if next == me {
		return
	}
	schedCur = next
	next.wake <- struct{}{}
	if !me.done {
		<-me.wake
	}
}

func Go(f func()) {
	if !Scheduled {
		threads.Add(1)
		go func() {
			defer threads.Done()
			defer func() {
				if r := recover(); r != nil {
					thPanic.Store(r)
				}
			}()
			f()
		}()
		return
	}
	t := &nthread{wake: make(chan struct{}, 1)}
	ready := make(chan struct{})
	go func() {
		t.goid = goid()
		schedMu.Lock()
		schedTh = append(schedTh, t)
		schedMu.Unlock()
		close(ready)
		<-t.wake
		defer func() {
			if r := recover(); r != nil {
				thPanic.Store(r)
			}
			t.done = true
			schedSwitch(true)
		}()
		f()
	}()
	<-ready
	schedSwitch(false)
}

func Yield() {
	if !Scheduled || !registered() {
		runtime.Gosched()
		return
	}
	schedSwitch(false)
}

type locker interface {
	Lock()
	TryLock() bool
}

type rlocker interface {
	RLock()
	TryRLock() bool
}

// Lock is what the replay overlay turns `x.Lock()` statements into.
func Lock(m locker) {
	if !Scheduled || !registered() {
		m.Lock()
		return
	}
	schedSwitch(false)
	for spins := 0; !m.TryLock(); spins++ {
		if spins > 100000 {
			panic("verifrt: scheduled replay spun on a mutex nobody releases (deadlock)")
		}
		schedSwitch(true)
	}
	if tryLockSeen {
		schedSwitch(false) // somebody uses TryLock: "inside the critical section" must be observable
	}
}

// tryLockSeen: the code under replay calls TryLock / TryRLock somewhere.
var tryLockSeen bool

// TryLock / TryRLock are what the replay overlay turns x.mu.TryLock() / TryRLock() into.
func TryLock(m locker) bool {
	if Scheduled && registered() {
		tryLockSeen = true
		schedSwitch(false)
	}
	return m.TryLock()
}

func TryRLock(m rlocker) bool {
	if Scheduled && registered() {
		tryLockSeen = true
		schedSwitch(false)
	}
	return m.TryRLock()
}

// RLock is what the replay overlay turns `x.RLock()` statements into.
func RLock(m rlocker) {
	if !Scheduled || !registered() {
		m.RLock()
		return
	}
	schedSwitch(false)
	for spins := 0; !m.TryRLock(); spins++ {
		if spins > 100000 {
			panic("verifrt: scheduled replay spun on a mutex nobody releases (deadlock)")
		}
		schedSwitch(true)
	}
	if tryLockSeen {
		schedSwitch(false)
	}
}

// Rendezvous: a meeting point inside concurrently running operations. Under
// the symbolic executor it is just a scheduling point; natively (free mode) the
// caller waits until n goroutines have arrived or 20ms have passed, which makes
// "both operations are in flight at the same time" the common case.
var (
	rvMu    sync.Mutex
	rvCount int
	rvCh    = make(chan struct{})
)

func Rendezvous(n int) {
	if Scheduled {
		if registered() {
			schedSwitch(false)
		}
		return
	}
	rvMu.Lock()
	rvCount++
	ch := rvCh
	if rvCount >= n {
		rvCount = 0
		rvCh = make(chan struct{})
		close(ch)
	}
	rvMu.Unlock()
	select {
	case <-ch:
	case <-time.After(20 * time.Millisecond):
		rvMu.Lock()
		if rvCh == ch {
			rvCount = 0
		}
		rvMu.Unlock()
	}
}

// Ticks grants k firings to the time.Tickers of the run (executor: a ticker's
// channel is ready while the budget lasts and when it fires relative to the
// other threads is a scheduling decision). Natively tickers are real.
func Ticks(k int) {}

// DistinctRandomness: from here on crypto/rand delivers, under the executor, a
// concrete byte stream in which any two windows of 4 or more bytes at different
// offsets differ (the idealisation "two random draws never coincide"). Natively
// crypto/rand stays real.
func DistinctRandomness() {}

// WaitFor blocks the calling goroutine until *flag is non-zero (set it with
// atomic.StoreInt32). Under the executor and under the cooperative replay
// scheduler the wait is a scheduling point, so a harness can hold one operation
// "in flight" while others run.
func WaitFor(flag *int32) {
	for atomic.LoadInt32(flag) == 0 {
		if Scheduled && registered() {
			me := schedCur
			me.wait = flag
			schedSwitch(true)
			me.wait = nil
		} else {
			runtime.Gosched()
			time.Sleep(50 * time.Microsecond)
		}
	}
}

// Settle lets goroutines started so far (e.g. by a constructor) reach their
// parking point before the concurrent part of a harness begins. Only tickers
// created after the latest Ticks call ever fire under the executor.
func Settle() {
	if Scheduled && registered() {
		// cooperative replay: run the others until each is done or parked in WaitFor
		for spins := 0; spins < 100000; spins++ {
			busy := false
			schedMu.Lock()
			all := append([]*nthread{}, schedTh...)
			schedMu.Unlock()
			for _, t := range all {
				if t != schedCur && !t.done && (t.wait == nil || atomic.LoadInt32(t.wait) != 0) {
					busy = true
				}
			}
			if !busy {
				return
			}
			schedSwitch(true)
		}
		panic("verifrt: Settle: the other goroutines never came to rest")
	}
	runtime.Gosched()
	time.Sleep(time.Millisecond)
}

// WaitAll joins every goroutine started with Go.
func WaitAll() {
	if !Scheduled {
		threads.Wait()
	} else {
		for {
			alive := false
			schedMu.Lock()
			others := append([]*nthread{}, schedTh[1:]...)
			schedMu.Unlock()
			for _, t := range others {
				if !t.done {
					alive = true
				}
			}
			if !alive {
				break
			}
			schedSwitch(true)
		}
	}
	if r := thPanic.Load(); r != nil {
		thPanic = atomic.Value{}
		panic(r)
	}
}

// sync/atomic wrappers: the replay overlay rewrites atomic.X(...) calls of the
// repository into verifrt.AtomicX(...), a scheduling point followed by the real operation.
func AtomicAddInt32(p *int32, d int32) int32  { Yield(); return atomic.AddInt32(p, d) }
func AtomicLoadInt32(p *int32) int32          { Yield(); return atomic.LoadInt32(p) }
func AtomicStoreInt32(p *int32, v int32)      { Yield(); atomic.StoreInt32(p, v) }
func AtomicSwapInt32(p *int32, v int32) int32 { Yield(); return atomic.SwapInt32(p, v) }
func AtomicCompareAndSwapInt32(p *int32, o, n int32) bool {
	Yield()
	return atomic.CompareAndSwapInt32(p, o, n)
}
func AtomicAddInt64(p *int64, d int64) int64  { Yield(); return atomic.AddInt64(p, d) }
func AtomicLoadInt64(p *int64) int64          { Yield(); return atomic.LoadInt64(p) }
func AtomicStoreInt64(p *int64, v int64)      { Yield(); atomic.StoreInt64(p, v) }
func AtomicSwapInt64(p *int64, v int64) int64 { Yield(); return atomic.SwapInt64(p, v) }
func AtomicCompareAndSwapInt64(p *int64, o, n int64) bool {
	Yield()
	return atomic.CompareAndSwapInt64(p, o, n)
}
func AtomicAddUint32(p *uint32, d uint32) uint32  { Yield(); return atomic.AddUint32(p, d) }
func AtomicLoadUint32(p *uint32) uint32           { Yield(); return atomic.LoadUint32(p) }
func AtomicStoreUint32(p *uint32, v uint32)       { Yield(); atomic.StoreUint32(p, v) }
func AtomicSwapUint32(p *uint32, v uint32) uint32 { Yield(); return atomic.SwapUint32(p, v) }
func AtomicCompareAndSwapUint32(p *uint32, o, n uint32) bool {
	Yield()
	return atomic.CompareAndSwapUint32(p, o, n)
}
func AtomicAddUint64(p *uint64, d uint64) uint64  { Yield(); return atomic.AddUint64(p, d) }
func AtomicLoadUint64(p *uint64) uint64           { Yield(); return atomic.LoadUint64(p) }
func AtomicStoreUint64(p *uint64, v uint64)       { Yield(); atomic.StoreUint64(p, v) }
func AtomicSwapUint64(p *uint64, v uint64) uint64 { Yield(); return atomic.SwapUint64(p, v) }
func AtomicCompareAndSwapUint64(p *uint64, o, n uint64) bool {
	Yield()
	return atomic.CompareAndSwapUint64(p, o, n)
}
func AtomicAddUintptr(p *uintptr, d uintptr) uintptr  { Yield(); return atomic.AddUintptr(p, d) }
func AtomicLoadUintptr(p *uintptr) uintptr            { Yield(); return atomic.LoadUintptr(p) }
func AtomicStoreUintptr(p *uintptr, v uintptr)        { Yield(); atomic.StoreUintptr(p, v) }
func AtomicSwapUintptr(p *uintptr, v uintptr) uintptr { Yield(); return atomic.SwapUintptr(p, v) }
func AtomicCompareAndSwapUintptr(p *uintptr, o, n uintptr) bool {
	Yield()
	return atomic.CompareAndSwapUintptr(p, o, n)
}

// Run executes a harness natively and classifies the outcome.
// It returns "pass", "assert:<label>", "assume", or "panic:<value>".
func Run(f func()) (outcome string) {
	defer func() {
		if r := recover(); r != nil {
			switch x := r.(type) {
			case AssertFailure:
				outcome = "assert:" + x.Label
			case AssumeFailure:
				outcome = "assume"
			default:
				outcome = fmt.Sprintf("panic:%v", r)
				Trace = append(Trace, "EVENT panic unrecovered panic")
			}
		}
	}()
	f()
	return "pass"
}
