package circuitbreaker

import (
	"sync/atomic"
	"time"

	"github.com/0xReLogic/Helios/internal/verifrt"
)

// VerifC07Concurrent: n concurrent requests arrive at an open breaker whose
// timeout has elapsed (max_requests = 1): at most max_requests trial requests
// may be admitted in total, under every interleaving.
func VerifC07Concurrent(n int) {
	cb := NewCircuitBreaker(Settings{Name: "verif", MaxRequests: 1, Interval: time.Minute, Timeout: time.Second, FailureThreshold: 1, SuccessThreshold: 2})
	verifExec(cb, func() error { return verifErrBoom })
	verifrt.Assert(cb.State() == StateOpen, "one failure opens the breaker (failure_threshold 1)")
	verifrt.Advance(2 * time.Second)
	var trials int32
	for i := 0; i < n; i++ {
		verifrt.Go(func() {
			verifExec(cb, func() error {
				atomic.AddInt32(&trials, 1)
				verifrt.Yield()
				return nil
			})
		})
	}
	verifrt.WaitAll()
	verifrt.Assert(atomic.LoadInt32(&trials) <= 1, "at most max_requests trial requests are admitted in total, even when they arrive concurrently")
}

// VerifC07Straggler: a request admitted while the breaker was closed is still
// in flight when other requests trip it; whenever it completes - successfully or
// not - the breaker stays open until the timeout has elapsed: the late outcome
// of a non-trial request neither closes nor half-opens it, and no request is
// let through to the backend meanwhile.
func VerifC07Straggler(succeeds int) {
	st := verifrt.IntRange("success_threshold", 1, 2)
	cb := NewCircuitBreaker(Settings{Name: "verif", MaxRequests: 2, Interval: time.Minute, Timeout: time.Hour, FailureThreshold: 2, SuccessThreshold: uint32(st)})
	verifrt.Go(func() {
		verifExec(cb, func() error {
			verifrt.Rendezvous(2) // in flight while the others run
			if succeeds != 0 {
				return nil
			}
			return verifErrBoom
		})
	})
	verifrt.Go(func() {
		verifrt.Rendezvous(2)
		verifExec(cb, func() error { return verifErrBoom })
		verifExec(cb, func() error { return verifErrBoom })
	})
	verifrt.WaitAll()
	verifrt.Assert(cb.State() == StateOpen, "failure_threshold failures opened the breaker and a straggler's late outcome does not change that")
	reached := false
	err, _ := verifExec(cb, func() error { reached = true; return nil })
	verifrt.Assert(!reached && err == ErrCircuitBreakerOpen, "while the breaker is open and the timeout has not elapsed every request is rejected and no backend is contacted")
}

// VerifC08ConcurrentTrials: max_requests = success_threshold = 2 and two
// requests arriving together once the timeout has elapsed: both are trials, both
// succeed, the breaker closes - however the two interleave (a trial whose
// success is dropped would leave the breaker half-open with its budget used up).
func VerifC08ConcurrentTrials() {
	cb := NewCircuitBreaker(Settings{Name: "verif", MaxRequests: 2, Interval: time.Minute, Timeout: time.Second, FailureThreshold: 1, SuccessThreshold: 2})
	verifExec(cb, func() error { return verifErrBoom })
	verifrt.Advance(2 * time.Second)
	for i := 0; i < 2; i++ {
		verifrt.Go(func() {
			verifExec(cb, func() error { verifrt.Yield(); return nil })
		})
	}
	verifrt.WaitAll()
	admitted := false
	verifExec(cb, func() error { admitted = true; return nil })
	verifExec(cb, func() error { admitted = true; return nil })
	verifrt.Assert(cb.State() == StateClosed && admitted, "two concurrent successful trials (max_requests = success_threshold = 2) close the breaker; it never stays half-open with its budget used up")
}

// VerifC07StragglerHalfOpen: a request admitted while the breaker was closed
// is still in flight when the breaker trips, the timeout elapses and a trial
// request is admitted (half-open). The straggler then completes successfully
// while the trial is still in flight: it is not a trial request, so its success
// must not close the breaker (success_threshold 1: the breaker would close
// without a single successful trial).
func VerifC07StragglerHalfOpen() {
	cb := NewCircuitBreaker(Settings{Name: "verif", MaxRequests: 1, Interval: time.Minute, Timeout: time.Second, FailureThreshold: 1, SuccessThreshold: 1})
	var releaseA, releaseC int32
	verifrt.Go(func() { verifExec(cb, func() error { verifrt.WaitFor(&releaseA); return nil }) })
	verifrt.Settle() // the straggler has been admitted (closed) and is in flight
	verifExec(cb, func() error { return verifErrBoom })
	verifrt.Assert(cb.State() == StateOpen, "one failure opens the breaker (failure_threshold 1)")
	verifrt.Advance(2 * time.Second)
	verifrt.Go(func() { verifExec(cb, func() error { verifrt.WaitFor(&releaseC); return nil }) })
	verifrt.Settle() // the trial request has been admitted (half-open) and is in flight
	verifrt.Assert(cb.State() == StateHalfOpen, "after the timeout a trial request is admitted: half-open")
	atomic.StoreInt32(&releaseA, 1)
	verifrt.Settle() // the straggler completes successfully
	verifrt.Assert(cb.State() == StateHalfOpen, "the breaker closes only after success_threshold TRIAL requests succeed: a straggler admitted before the trip does not count")
	atomic.StoreInt32(&releaseC, 1)
	verifrt.WaitAll()
	verifrt.Assert(cb.State() == StateClosed, "the successful trial closes the breaker")
}

// VerifC07OverlappingFailures: failures of requests that overlap in time all
// count. The breaker is closed, optionally with an old failure whose counting
// window has expired; then failure_threshold (2) requests are admitted one after
// the other and fail one after the other (admit A, admit B, A fails, B fails):
// the breaker is open afterwards.
func VerifC07OverlappingFailures() {
	cb := NewCircuitBreaker(Settings{Name: "verif", MaxRequests: 1, Interval: time.Minute, Timeout: time.Hour, FailureThreshold: 2, SuccessThreshold: 1})
	if verifrt.Bool("anOldFailureWhoseWindowHasExpired") {
		verifExec(cb, func() error { return verifErrBoom })
		verifrt.Advance(2 * time.Minute)
	}
	if verifrt.Bool("aSuccessBefore") {
		verifExec(cb, func() error { return nil })
	}
	var release int32
	verifrt.Go(func() { verifExec(cb, func() error { verifrt.WaitFor(&release); return verifErrBoom }) })
	verifrt.Settle()             // A is admitted and in flight
	verifExec(cb, func() error { // B is admitted while A is in flight; A fails first, then B
		atomic.StoreInt32(&release, 1)
		verifrt.Settle()
		return verifErrBoom
	})
	verifrt.WaitAll()
	verifrt.Assert(cb.State() == StateOpen, "failure_threshold failed requests with no gap longer than interval open the breaker, also when the requests overlap in time")
}

// VerifC07ConcurrentFailuresAfterExpiredWindow: the breaker is closed with an
// old failure whose counting window has expired; failure_threshold (2) requests
// then arrive together and both fail, under every interleaving of their lock
// operations (in particular: A has found the window expired and released the
// read lock, B runs to completion and records a fresh failure, A then takes the
// write lock). The two fresh failures are closer together than interval, so the
// breaker is open afterwards - the reset of the expired window must not erase a
// failure recorded after it was found expired.
func VerifC07ConcurrentFailuresAfterExpiredWindow() {
	cb := NewCircuitBreaker(Settings{Name: "verif", MaxRequests: 1, Interval: time.Minute, Timeout: time.Hour, FailureThreshold: 2, SuccessThreshold: 1})
	verifExec(cb, func() error { return verifErrBoom })
	verifrt.Advance(2 * time.Minute)
	for i := 0; i < 2; i++ {
		verifrt.Go(func() { verifExec(cb, func() error { return verifErrBoom }) })
	}
	verifrt.WaitAll()
	verifrt.Assert(cb.State() == StateOpen, "failure_threshold requests that arrive together after an expired counting window and both fail open the breaker, however they interleave")
}
