package circuitbreaker

import (
	"sync/atomic"
	"time"

	"github.com/0xReLogic/Helios/internal/verifrt"
)

// VerifC07Concurrent: n concurrent requests arrive at an open breaker whose
// timeout has elapsed (max_requests = 1): at most max_requests trial requests
// may be admitted in total, under every interleaving.
func VerifC07Concurrent(n int) {
	cb := NewCircuitBreaker(Settings{Name: "verif", MaxRequests: 1, Interval: time.Minute, Timeout: time.Second, FailureThreshold: 1, SuccessThreshold: 2})
	verifExec(cb, func() error { return verifErrBoom })
	verifrt.Assert(cb.State() == StateOpen, "one failure opens the breaker (failure_threshold 1)")
	verifrt.Advance(2 * time.Second)
	var trials int32
	for i := 0; i < n; i++ {
		verifrt.Go(func() {
			verifExec(cb, func() error {
				atomic.AddInt32(&trials, 1)
				verifrt.Yield()
				return nil
			})
		})
	}
	verifrt.WaitAll()
	verifrt.Assert(atomic.LoadInt32(&trials) <= 1, "at most max_requests trial requests are admitted in total, even when they arrive concurrently")
}
