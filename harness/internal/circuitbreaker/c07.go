package circuitbreaker

import (
	"errors"
	"net/http"
	"time"

	"github.com/0xReLogic/Helios/internal/config"
	"github.com/0xReLogic/Helios/internal/verifrt"
)

var verifErrBoom = errors.New("verif: backend failure")

// verifAbortValue: a protected call aborts either with an arbitrary panic
// value or with the value the reverse proxy uses (http.ErrAbortHandler).
func verifAbortValue() interface{} {
	if verifrt.Bool("panicIsErrAbortHandler") {
		return http.ErrAbortHandler
	}
	return "verif: handler aborted"
}

// verifExec runs one protected call the way net/http would: a panic is recovered by the caller.
func verifExec(cb *CircuitBreaker, fn func() error) (err error, panicked bool) {
	defer func() {
		if r := recover(); r != nil {
			panicked = true
		}
	}()
	err = cb.Execute(fn)
	return
}

// verifMaxThr bounds the three thresholds (3 for history exploration, 2^30 for
// the one-step inductive harness where no loop depends on them).
var verifMaxThr = 3

// verifLastMaxRequestsCfg: the configured (not the effective) max_requests of the last verifNewBreaker.
var verifLastMaxRequestsCfg int

func verifNewBreaker(onChange func(string, State, State)) (*CircuitBreaker, int, int, int, int64, int64) {
	ft := verifrt.IntRange("failure_threshold", 1, verifMaxThr)
	st := verifrt.IntRange("success_threshold", 1, verifMaxThr)
	// max_requests as configured: 0 = unset (the breaker then admits success_threshold trials)
	mrCfg := verifrt.IntRange("max_requests", 0, verifMaxThr)
	verifLastMaxRequestsCfg = mrCfg
	mr := mrCfg
	if mr == 0 {
		mr = st
	}
	interval := verifrt.IntRange("interval", 1, 1<<40)
	timeout := verifrt.IntRange("timeout", 1, 1<<40)
	cb := NewCircuitBreaker(Settings{Name: "verif", MaxRequests: uint32(mrCfg), Interval: time.Duration(interval), Timeout: time.Duration(timeout),
		FailureThreshold: uint32(ft), SuccessThreshold: uint32(st), OnStateChange: onChange})
	return cb, ft, st, mr, int64(interval), int64(timeout)
}

// VerifC07Seq drives the real breaker through every history of <= k events over
// {ok, error, panic, time passes} and checks the safety clauses of C07 on each
// transition with ghost counters written from the property statement.
// VerifC07Spaced: the interval clause directly. failure_threshold = n failures,
// every gap between consecutive failures any duration <= interval (their sum
// may exceed the interval many times over): the breaker is open after the n-th.
// And one gap longer than the interval starts the count afresh: with that gap
// before the last failure the breaker is still closed (n >= 2).
func VerifC07Spaced(n int, longGap int) {
	interval := verifrt.IntRange("interval", 1, 1<<40)
	timeout := verifrt.IntRange("timeout", 1, 1<<40)
	cb := NewCircuitBreaker(Settings{Name: "verif", MaxRequests: 1, Interval: time.Duration(interval), Timeout: time.Duration(timeout),
		FailureThreshold: uint32(n), SuccessThreshold: 1})
	for i := 0; i < n; i++ {
		if i > 0 {
			gap := verifrt.IntRange("gap", 0, 1<<41)
			if longGap != 0 && i == n-1 {
				verifrt.Assume(gap > interval)
			} else {
				verifrt.Assume(gap <= interval)
			}
			verifrt.Advance(time.Duration(gap))
		}
		verifrt.Assert(cb.State() == StateClosed, "fewer than failure_threshold failures leave the breaker closed")
		verifExec(cb, func() error { return verifErrBoom })
	}
	if longGap != 0 {
		verifrt.Assert(cb.State() == StateClosed, "a gap longer than interval between consecutive failures starts the count afresh")
	} else {
		verifrt.Assert(cb.State() == StateOpen, "failure_threshold failures with no gap longer than interval between consecutive ones open the breaker, however long the run takes in total")
	}
}

// verifTimedSteps: see VerifC07SeqTimed.
var verifTimedSteps = false

// VerifC07SeqTimed: the same checks over histories of <= k steps where every
// step is "any amount of time passes (possibly none), then a request".
func VerifC07SeqTimed(k int) {
	verifTimedSteps = true
	defer func() { verifTimedSteps = false }()
	VerifC07Seq(k)
}

func VerifC07Seq(k int) {
	cb, ft, st, mr, interval, timeout := verifNewBreaker(nil)
	now := int64(0)
	g := 0 // failures accumulated with no gap > interval
	lastFail := int64(-1)
	openedAt := int64(0)
	trials, succ := 0, 0
	for i := 0; i < k; i++ {
		ev := 0
		if verifTimedSteps {
			// every step is "some time passes (possibly none), then a request": histories of
			// spaced failures need half as many steps
			dt := verifrt.IntRange("dt", 0, 1<<41)
			verifrt.Advance(time.Duration(dt))
			now += int64(dt)
			ev = verifrt.Choice("event", 3)
		} else {
			ev = verifrt.Choice("event", 4)
			if ev == 3 {
				dt := verifrt.IntRange("dt", 1, 1<<41)
				verifrt.Advance(time.Duration(dt))
				now += int64(dt)
				continue
			}
		}
		pre := cb.State()
		invoked := false
		err, panicked := verifExec(cb, func() error {
			invoked = true
			switch ev {
			case 1:
				return verifErrBoom
			case 2:
				panic(verifAbortValue())
			}
			return nil
		})
		post := cb.State()
		fail := ev != 0
		verifrt.Assert(panicked == (invoked && ev == 2), "a panic in the protected call propagates to the caller")
		if invoked && !panicked {
			verifrt.Assert((err == nil) == (ev == 0), "Execute returns the protected call's own error")
		}
		switch pre {
		case StateClosed:
			verifrt.Assert(invoked, "closed: every request is admitted")
			if fail {
				if lastFail >= 0 && now-lastFail > interval {
					g = 0
				}
				g++
				lastFail = now
				verifrt.Assert(verifrt.Implies(g >= ft, post == StateOpen), "failure_threshold failures with no gap longer than interval open the breaker (error and panic both count)")
			} else {
				verifrt.Assert(post == StateClosed, "a successful request never opens a closed breaker")
			}
			if post == StateOpen {
				openedAt = now
			}
		case StateOpen:
			if now-openedAt < timeout {
				verifrt.Assert(!invoked && err == ErrCircuitBreakerOpen && post == StateOpen, "open and timeout not elapsed: rejected with ErrCircuitBreakerOpen, protected call not invoked")
			} else if now-openedAt > timeout {
				verifrt.Assert(invoked, "after timeout a trial request is admitted")
				trials, succ = 1, 0
				if fail {
					verifrt.Assert(post == StateOpen, "a failed trial reopens the breaker")
					openedAt = now
				} else {
					succ = 1
					verifrt.Assert((post == StateClosed) == (succ >= st), "breaker closes exactly when success_threshold trials have succeeded")
					verifrt.Assert(post == StateClosed || post == StateHalfOpen, "a successful trial never reopens")
				}
			} else {
				// exactly at the boundary either behaviour is acceptable; resynchronise the ghost
				if invoked {
					trials, succ = 1, 0
					if fail {
						openedAt = now
					} else {
						succ = 1
					}
				}
			}
			if post == StateClosed {
				g, lastFail = 0, -1
			}
		case StateHalfOpen:
			if invoked {
				trials++
				verifrt.Assert(trials <= mr, "at most max_requests trial requests are admitted per half-open episode")
				if fail {
					verifrt.Assert(post == StateOpen, "a failed trial reopens the breaker")
					openedAt = now
				} else {
					succ++
					verifrt.Assert((post == StateClosed) == (succ >= st), "breaker closes exactly when success_threshold trials have succeeded")
				}
			} else {
				verifrt.Assert(err == ErrTooManyRequests && post == StateHalfOpen, "half-open over budget: rejected with ErrTooManyRequests, state unchanged")
			}
			if post == StateClosed {
				g, lastFail = 0, -1
			}
		}
	}
}

// VerifC08Recovery: after any history of <= k events, once requests succeed
// again the breaker is closed after timeout plus a bounded number of
// successful requests (success_threshold + max_requests + 1), and the last one
// is admitted.
func VerifC08Recovery(k int) {
	cb, ft, st, mr, _, timeout := verifNewBreaker(nil)
	// "for every accepted configuration": the real validation decides
	verifrt.Assume(config.VerifBreakerAccepted(ft, st, verifLastMaxRequestsCfg))
	for i := 0; i < k; i++ {
		ev := verifrt.Choice("event", 4)
		if ev == 3 {
			verifrt.Advance(time.Duration(verifrt.IntRange("dt", 1, 1<<41)))
			continue
		}
		verifExec(cb, func() error {
			switch ev {
			case 1:
				return verifErrBoom
			case 2:
				panic(verifAbortValue())
			}
			return nil
		})
	}
	verifrt.Advance(time.Duration(timeout + 1))
	admitted := false
	for i := 0; i < 7; i++ {
		if i < st+mr+1 {
			admitted = false
			verifExec(cb, func() error { admitted = true; return nil })
		}
	}
	verifrt.Assert(cb.State() == StateClosed, "recovery script (timeout, then success_threshold+max_requests+1 successes) closes the breaker")
	verifrt.Assert(admitted, "the last request of the recovery script is admitted")
}

// verifInv is the representation invariant of a breaker in sequential use,
// relating its fields to the ghost quantities of the property statement.
func verifInv(cb *CircuitBreaker) bool {
	ok := cb.state == StateClosed || cb.state == StateOpen || cb.state == StateHalfOpen
	ok = verifrt.And(ok, verifrt.Implies(cb.state == StateClosed, cb.failureCount < cb.failureThreshold))
	ok = verifrt.And(ok, verifrt.Implies(cb.state == StateHalfOpen,
		verifrt.And(cb.successCount == cb.requestCount, verifrt.And(cb.successCount < cb.successThreshold, cb.requestCount <= cb.maxRequests))))
	ok = verifrt.And(ok, verifrt.Implies(cb.state == StateOpen, !cb.nextAttempt.Add(-cb.timeout).After(verifrt.Now())))
	ok = verifrt.And(ok, !cb.lastFailureTime.After(verifrt.Now()))
	ok = verifrt.And(ok, verifrt.Implies(cb.failureCount > 0, !cb.lastFailureTime.IsZero()))
	return ok
}

// VerifC07Step is the inductive step: from ANY state satisfying the
// invariant, after any amount of time, one request with any outcome obeys
// every safety clause and re-establishes the invariant. Together with
// VerifC07Init (the constructor establishes it) this covers sequential
// histories of every length.
func VerifC07Step(maxThr int) {
	verifMaxThr = maxThr
	cb, ft, st, mr, interval, timeout := verifNewBreaker(nil)
	cb.state = State(verifrt.IntRange("state", 0, 2))
	cb.failureCount = uint32(verifrt.IntRange("failureCount", 0, 1<<30))
	cb.successCount = uint32(verifrt.IntRange("successCount", 0, 1<<30))
	cb.requestCount = uint32(verifrt.IntRange("requestCount", 0, 1<<30))
	if verifrt.Bool("hasFailed") {
		cb.lastFailureTime = verifrt.Now().Add(-time.Duration(verifrt.IntRange("sinceFailure", 0, 1<<42)))
	}
	cb.nextAttempt = verifrt.Now().Add(time.Duration(verifrt.IntRange("untilAttempt", -(1 << 42), 1<<42)))
	verifrt.Assume(verifInv(cb))

	dt := int64(verifrt.IntRange("dt", 0, 1<<41))
	verifrt.Advance(time.Duration(dt))
	ev := verifrt.Choice("outcome", 3)
	pre := cb.state
	g := int(cb.failureCount)
	sinceFail := verifrt.Since(cb.lastFailureTime)
	hadFail := !cb.lastFailureTime.IsZero()
	openFor := int64(verifrt.Since(cb.nextAttempt)) + timeout // now - openedAt
	trials, succ := int(cb.requestCount), int(cb.successCount)

	invoked := false
	err, _ := verifExec(cb, func() error {
		invoked = true
		// the protected call itself takes time (a slow or hanging backend)
		verifrt.Advance(time.Duration(verifrt.IntRange("callDuration", 0, 1<<41)))
		switch ev {
		case 1:
			return verifErrBoom
		case 2:
			panic(verifAbortValue())
		}
		return nil
	})
	post := cb.state
	fail := ev != 0
	switch pre {
	case StateClosed:
		verifrt.Assert(invoked, "closed: every request is admitted")
		if fail {
			if hadFail && int64(sinceFail) > interval {
				g = 0
			}
			g++
			verifrt.Assert(verifrt.Implies(g >= ft, post == StateOpen), "failure_threshold failures with no gap longer than interval open the breaker (error and panic both count)")
		} else {
			verifrt.Assert(post == StateClosed, "a successful request never opens a closed breaker")
		}
	case StateOpen:
		if openFor < timeout {
			verifrt.Assert(!invoked && err == ErrCircuitBreakerOpen && post == StateOpen, "open and timeout not elapsed: rejected with ErrCircuitBreakerOpen, protected call not invoked")
		} else if openFor > timeout {
			verifrt.Assert(invoked, "after timeout a trial request is admitted")
			if fail {
				verifrt.Assert(post == StateOpen, "a failed trial reopens the breaker")
			} else {
				verifrt.Assert((post == StateClosed) == (1 >= st), "breaker closes exactly when success_threshold trials have succeeded")
				verifrt.Assert(post == StateClosed || post == StateHalfOpen, "a successful trial never reopens")
			}
		}
	case StateHalfOpen:
		if invoked {
			trials++
			verifrt.Assert(trials <= mr, "at most max_requests trial requests are admitted per half-open episode")
			if fail {
				verifrt.Assert(post == StateOpen, "a failed trial reopens the breaker")
			} else {
				succ++
				verifrt.Assert((post == StateClosed) == (succ >= st), "breaker closes exactly when success_threshold trials have succeeded")
			}
		} else {
			verifrt.Assert(err == ErrTooManyRequests && post == StateHalfOpen, "half-open over budget: rejected with ErrTooManyRequests, state unchanged")
		}
	}
	if post == StateOpen && (pre != StateOpen || invoked) {
		verifrt.Assert(cb.nextAttempt.Equal(verifrt.Now().Add(cb.timeout)), "(re)opening starts a fresh timeout")
	}
	verifrt.Assert(verifInv(cb), "representation invariant is preserved (inductive)")
}

// VerifC07Init: the constructor establishes the invariant for every accepted setting.
func VerifC07Init() {
	verifMaxThr = 1 << 30
	cb, _, _, _, _, _ := verifNewBreaker(nil)
	verifrt.Assert(verifInv(cb), "constructor establishes the representation invariant")
	verifrt.Assert(cb.state == StateClosed, "a new breaker is closed")
}

// VerifC07NegStep is the negative twin of the step harness: it claims that a
// half-open breaker closes after a single trial success whatever the
// threshold, which must come back violated.
func VerifC07NegStep() {
	cb, _, _, _, _, _ := verifNewBreaker(nil)
	cb.state = StateHalfOpen
	verifrt.Assume(verifInv(cb))
	verifExec(cb, func() error { return nil })
	verifrt.Assert(cb.state == StateClosed, "NEGATIVE TWIN: one trial success always closes")
}

// VerifC08Step: the recovery script from ANY state satisfying the invariant.
func VerifC08Step() {
	cb, ft, st, mr, _, timeout := verifNewBreaker(nil)
	// "for every accepted configuration": the real validation decides
	verifrt.Assume(config.VerifBreakerAccepted(ft, st, verifLastMaxRequestsCfg))
	cb.state = State(verifrt.IntRange("state", 0, 2))
	cb.failureCount = uint32(verifrt.IntRange("failureCount", 0, 1<<30))
	cb.successCount = uint32(verifrt.IntRange("successCount", 0, 3))
	cb.requestCount = uint32(verifrt.IntRange("requestCount", 0, 3))
	if verifrt.Bool("hasFailed") {
		cb.lastFailureTime = verifrt.Now().Add(-time.Duration(verifrt.IntRange("sinceFailure", 0, 1<<42)))
	}
	cb.nextAttempt = verifrt.Now().Add(time.Duration(verifrt.IntRange("untilAttempt", -(1 << 42), 1<<42)))
	verifrt.Assume(verifInv(cb))
	verifrt.Advance(time.Duration(timeout + 1))
	admitted := false
	for i := 0; i < 7; i++ {
		if i < st+mr+1 {
			admitted = false
			verifExec(cb, func() error { admitted = true; return nil })
		}
	}
	verifrt.Assert(cb.State() == StateClosed, "recovery script (timeout, then success_threshold+max_requests+1 successes) closes the breaker")
	verifrt.Assert(admitted, "the last request of the recovery script is admitted")
}
