package logging

import (
	"github.com/rs/zerolog"
	"net/http"
	"net/url"

	"github.com/0xReLogic/Helios/internal/config"
	"github.com/0xReLogic/Helios/internal/verifrt"
)

type verifWriter struct {
	hdr http.Header
}

func (w *verifWriter) Header() http.Header         { return w.hdr }
func (w *verifWriter) WriteHeader(int)             {}
func (w *verifWriter) Write(b []byte) (int, error) { return len(b), nil }

type verifNext struct {
	called  int
	sawW    http.ResponseWriter
	req     *http.Request
	errCode int
}

func (n *verifNext) ServeHTTP(w http.ResponseWriter, r *http.Request) {
	n.called++
	n.sawW = w
	n.req = r
	if n.errCode != 0 {
		http.Error(w, "rejected", n.errCode)
	}
}

func verifLoggingCfg() (config.LoggingConfig, string, string) {
	var cfg config.LoggingConfig
	cfg.RequestID.Enabled = verifrt.Bool("request_id.enabled")
	cfg.Trace.Enabled = verifrt.Bool("trace.enabled")
	reqH, traceH := "X-Request-ID", "X-Trace-ID"
	if verifrt.Bool("customRequestHeader") {
		cfg.RequestID.Header = " X-Correlation-Id "
		reqH = "X-Correlation-Id"
	}
	if verifrt.Bool("customTraceHeader") {
		cfg.Trace.Header = "Traceparent"
		traceH = "Traceparent"
	}
	return cfg, reqH, traceH
}

// verifClientValue: what net/http's parser can deliver for a header value
// (no control characters, no leading/trailing ASCII white space; bytes >= 0x80
// are legal field content and are delivered as they are), of length 1..3, or absent.
func verifClientValue(name string, rich bool) (string, bool) {
	if !verifrt.Bool(name + ".present") {
		return "", false
	}
	if !rich {
		return "edge-7f3a", true
	}
	// a header that is present but blank ("X-Request-ID:" with an empty value): treated as "not supplied"
	if verifrt.Bool(name + ".blank") {
		return "", true
	}
	// long identifiers (a full W3C traceparent with tracestate, a signed token): concrete, 129 and 1025 bytes
	switch verifrt.Choice(name+".long", 3) {
	case 1:
		return verifLongID[:128] + "Z", true
	case 2:
		return verifLongID[:1024] + "Z", true
	}
	n := 1 + verifrt.Choice(name+".len", 3)
	v := verifrt.String(name, n)
	for i := 0; i < len(v); i++ {
		verifrt.Assume((v[i] > ' ' && v[i] < 0x7f) || v[i] >= 0x80)
	}
	return v, true
}

// verifLongID: 1024 bytes of token characters
const verifLongID = "0123456789abcdef-0123456789abcdef-0123456789abcdef-0123456789abcdef-0123456789abcdef-0123456789abcdef-0123456789abcdef-0123456789abcdef-0123456789abcdef-0123456789abcdef-0123456789abcdef-0123456789abcdef-0123456789abcdef-0123456789abcdef-0123456789abcdef-0123456789abcdef-0123456789abcdef-0123456789abcdef-0123456789abcdef-0123456789abcdef-0123456789abcdef-0123456789abcdef-0123456789abcdef-0123456789abcdef-0123456789abcdef-0123456789abcdef-0123456789abcdef-0123456789abcdef-0123456789abcdef-0123456789abcdef-0123456789abcdef-0123456789abcdef-0123456789abcdef-0123456789abcdef-0123456789abcdef-0123456789abcdef-0123456789abcdef-0123456789abcdef-0123456789abcdef-0123456789abcdef-0123456789abcdef-0123456789abcdef-0123456789abcdef-0123456789abcdef-0123456789abcdef-0123456789abcdef-0123456789abcdef-0123456789abcdef-0123456789abcdef-0123456789abcdef-0123456789abcdef-0123456789abcdef-0123456789abcdef-0123456789abcdef-0123456789abcdef-0123456789abcdef-0123456789abcdef-0123456789abcdef-0123456789abcdef-0123456789abcdef-0123"

// VerifC16Propagation: request-ID / trace-ID headers across every
// enabled/disabled combination, default and custom header names, client
// supplied or absent values, and every kind of downstream response.
func VerifC16Propagation() {
	cfg, reqH, traceH := verifLoggingCfg()
	next := &verifNext{}
	switch verifrt.Choice("downstream", 4) {
	case 1:
		next.errCode = http.StatusTooManyRequests
	case 2:
		next.errCode = http.StatusServiceUnavailable
	case 3:
		next.errCode = http.StatusRequestEntityTooLarge
	}
	h := RequestContextMiddleware(cfg)(next)
	r := &http.Request{Method: "GET", URL: &url.URL{Path: "/x"}, Header: http.Header{}, RemoteAddr: "10.0.0.1:1"}
	r.Header.Set("Accept", "*/*")
	// one of the two headers ranges over every deliverable value, the other is absent or a plain token
	richR := verifrt.Bool("requestIDisTheArbitraryOne")
	cr, hasR := verifClientValue("clientRequestID", richR)
	ct, hasT := verifClientValue("clientTraceID", !richR)
	if hasR {
		r.Header.Set(reqH, cr)
	}
	if hasT {
		r.Header.Set(traceH, ct)
	}
	// a client may send the header more than once (two field lines)
	twoR := hasR && richR && verifrt.Bool("clientRequestID.secondLine")
	twoT := hasT && !richR && verifrt.Bool("clientTraceID.secondLine")
	if twoR {
		r.Header.Add(reqH, "origin-0042")
	}
	if twoT {
		r.Header.Add(traceH, "origin-0042")
	}
	w := &verifWriter{hdr: http.Header{}}
	h.ServeHTTP(w, r)

	verifrt.Assert(next.called == 1, "the next handler runs exactly once")
	verifrt.Assert(next.sawW == http.ResponseWriter(w), "the very same ResponseWriter is passed down (no wrapper)")
	verifrt.Assert(next.req.Method == r.Method && next.req.URL == r.URL && next.req.Body == r.Body && next.req.RemoteAddr == r.RemoteAddr, "method, URL, body and peer address reach the next handler unchanged")
	verifrt.Assert(next.req.Header.Get("Accept") == "*/*", "other request headers are untouched")
	seenR, seenT := next.req.Header.Get(reqH), next.req.Header.Get(traceH)
	gotR, gotT := w.hdr.Get(reqH), w.hdr.Get(traceH)
	if cfg.RequestID.Enabled {
		verifrt.Assert(gotR != "", "every response carries the request-ID header when enabled")
		verifrt.Assert(gotR == seenR, "the request ID the backend sees equals the one the client gets")
		if hasR && cr != "" {
			verifrt.Assert(gotR == cr, "a client-supplied request ID is propagated unchanged")
		}
	} else {
		verifrt.Assert(gotR == "" && seenR == cr, "request-ID feature disabled: header neither generated nor altered")
	}
	if cfg.Trace.Enabled {
		verifrt.Assert(gotT != "", "every response carries the trace header when enabled")
		verifrt.Assert(gotT == seenT, "the trace ID the backend sees equals the one the client gets")
		if hasT && ct != "" {
			verifrt.Assert(gotT == ct, "a client-supplied trace ID is propagated unchanged")
		}
	} else {
		verifrt.Assert(gotT == "" && seenT == ct, "trace feature disabled: header neither generated nor altered")
	}
	// a header the client supplied reaches the backend as the client sent it - every field line of it
	if hasR && (cr != "" || !cfg.RequestID.Enabled) {
		vs := next.req.Header.Values(reqH)
		verifrt.Assert(len(vs) == 1+verifB2I(twoR) && vs[0] == cr && (!twoR || vs[1] == "origin-0042"), "a client-supplied request-ID header reaches the backend unchanged (every field line)")
	}
	if hasT && (ct != "" || !cfg.Trace.Enabled) {
		vs := next.req.Header.Values(traceH)
		verifrt.Assert(len(vs) == 1+verifB2I(twoT) && vs[0] == ct && (!twoT || vs[1] == "origin-0042"), "a client-supplied trace header reaches the backend unchanged (every field line)")
	}
	n := 0
	for range w.hdr {
		n++
	}
	extra := 0
	if next.errCode != 0 {
		extra = 2 // http.Error sets Content-Type and X-Content-Type-Options
	}
	want := extra
	if cfg.RequestID.Enabled {
		want++
	}
	if cfg.Trace.Enabled {
		want++
	}
	verifrt.Assert(n == want, "the only response headers the middleware adds are the ID headers")
}

func verifB2I(b bool) int {
	if b {
		return 1
	}
	return 0
}

// VerifC01Middleware is the transparency view of the same exchange (C01b).
func VerifC01Middleware() { VerifC16Propagation() }

// VerifC16Unique: two generated identifiers are equal only if the 12 random
// bytes drawn for them are equal (injectivity of the encoding).
func VerifC16Unique() {
	a := generateIdentifier("req")
	b := generateIdentifier("req")
	verifrt.Observe("generated")
	verifrt.Assert(len(a) == len("req_")+24 && len(b) == len(a), "identifier = prefix + 24 hex digits")
	same := true
	for i := 0; i < len(a); i++ {
		same = verifrt.And(same, a[i] == b[i])
	}
	verifrt.Assert(verifrt.Implies(same, verifRandEqual()), "equal identifiers imply equal random draws (no two draws collide in the encoding)")
}

// VerifC16ManyIDs: n identifiers generated one after the other while the random
// source never repeats itself: all n are different (a generator that recycles,
// truncates or runs dry of its entropy shows up as a repeated identifier).
func VerifC16ManyIDs(n int) {
	verifrt.DistinctRandomness()
	seen := map[string]bool{}
	for i := 0; i < n; i++ {
		id := generateIdentifier("req")
		verifrt.Assert(!seen[id], "generated identifiers are unique across requests (the random source never repeating)")
		seen[id] = true
	}
}

// verifRandEqual is replaced by the executor's view of the two rand.Read draws.
func verifRandEqual() bool { return verifrt.RandDrawsEqual() }

// VerifC16NegUnique: negative twin - claims two identifiers always differ (false when the draws coincide).
func VerifC16NegUnique() {
	a := generateIdentifier("req")
	b := generateIdentifier("req")
	verifrt.Assert(a != b, "NEGATIVE TWIN: identifiers differ even for identical random draws")
}

// VerifC16TwoRequests: two requests that carry the SAME client-supplied
// request ID and no trace header: the two generated trace IDs are equal only
// if the two random draws are (generated IDs are unique across requests).
func VerifC16TwoRequests() {
	var cfg config.LoggingConfig
	cfg.RequestID.Enabled = true
	cfg.Trace.Enabled = true
	var ids [2]string
	for i := 0; i < 2; i++ {
		next := &verifNext{}
		h := RequestContextMiddleware(cfg)(next)
		r := &http.Request{Method: "GET", URL: &url.URL{Path: "/x"}, Header: http.Header{}, RemoteAddr: "10.0.0.1:1"}
		r.Header.Set("X-Request-ID", "order-42-retry")
		w := &verifWriter{hdr: http.Header{}}
		h.ServeHTTP(w, r)
		ids[i] = w.hdr.Get("X-Trace-ID")
		verifrt.Assert(ids[i] != "" && ids[i] == next.req.Header.Get("X-Trace-ID"), "a trace ID is generated and is the same on both sides")
	}
	verifrt.Assert(verifrt.Implies(ids[0] == ids[1], verifrt.RandDrawsEqual()), "generated trace IDs of different requests are equal only if the random draws are equal")
}

// VerifC18LogLevels: the logger that an accepted configuration starts with:
// every documented level name selects that level, and an omitted level is the
// documented default "info" - in particular the logger is never silenced, so a
// start-up failure still produces its error message.
func VerifC18LogLevels() {
	names := []string{"", "debug", "info", "warn", "error"}
	want := []zerolog.Level{zerolog.InfoLevel, zerolog.DebugLevel, zerolog.InfoLevel, zerolog.WarnLevel, zerolog.ErrorLevel}
	i := verifrt.Choice("logging.level", len(names))
	got := parseLevel(names[i])
	verifrt.Assert(got == want[i], "every documented logging.level selects that level; omitted means info")
	verifrt.Assert(got <= zerolog.ErrorLevel, "error messages are never filtered out by a documented level")
}
