package adminapi

import (
	"net/http"
	"net/url"
	"strings"

	"github.com/0xReLogic/Helios/internal/verifrt"
)

// names an operator may type: plain, and with leading / trailing blanks or a newline
var verifAPINames = []string{"web", "web ", " web", "web\n", "api"}

func verifAPICall(h http.Handler, path, body string) int {
	r := &http.Request{Method: "POST", URL: &url.URL{Path: path}, Header: http.Header{}, RemoteAddr: "10.0.0.1:999"}
	r.Body = &verifBody{Reader: strings.NewReader(body)}
	rec := &verifRecorder{hdr: http.Header{}}
	h.ServeHTTP(rec, r)
	return rec.status
}

// the same names as JSON string literals
var verifAPINamesJSON = []string{`"web"`, `"web "`, `" web"`, `"web\n"`, `"api"`}

// VerifC11API: model-based histories of <= k add / remove calls through the
// real admin HTTP handlers (JSON decoding, name handling, status codes)
// against a list of names taken verbatim: after every call the balancer lists
// exactly the model's backends; a successful remove removes that name and only
// that name; removing a name that was never added changes nothing (the handler
// answers 200 either way, which the statement does not constrain).
func VerifC11API(k int) {
	lb, cfg := verifLB()
	defer lb.Stop()
	h := NewMux(lb, cfg, lb.GetMetricsCollector())
	model := []string{"b0"}
	for i := 0; i < k; i++ {
		ni := verifrt.Choice("name", len(verifAPINames))
		name, lit := verifAPINames[ni], verifAPINamesJSON[ni]
		if verifrt.Bool("add") {
			st := verifAPICall(h, "/v1/backends/add", `{"name":`+lit+`,"address":"http://10.0.0.9:80","weight":1}`)
			if st >= 200 && st < 300 {
				model = append(model, name)
			}
		} else {
			st := verifAPICall(h, "/v1/backends/remove", `{"name":`+lit+`}`)
			if st >= 200 && st < 300 {
				var rest []string
				for _, m := range model {
					if m != name {
						rest = append(rest, m)
					}
				}
				model = rest
			}
		}
		listed := lb.ListBackends()
		verifrt.Assert(len(listed) == len(model), "after every admin call the listed backends are exactly the model's (count)")
		for _, m := range model {
			n := 0
			for _, in := range listed {
				if in.Name == m {
					n++
				}
			}
			want := 0
			for _, x := range model {
				if x == m {
					want++
				}
			}
			verifrt.Assert(n == want, "after every admin call the listed backends are exactly the model's (names verbatim)")
		}
	}
}
