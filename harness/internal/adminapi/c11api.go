package adminapi

import (
	"net/http"
	"net/url"
	"strings"

	"github.com/0xReLogic/Helios/internal/config"
	"github.com/0xReLogic/Helios/internal/loadbalancer"
	"github.com/0xReLogic/Helios/internal/verifrt"
)

// names an operator may type: plain, and with leading / trailing blanks or a newline
var verifAPINames = []string{"web", "web ", " web", "web\n", "api"}

func verifAPICall(h http.Handler, path, body string) int {
	r := &http.Request{Method: "POST", URL: &url.URL{Path: path}, Header: http.Header{}, RemoteAddr: "10.0.0.1:999"}
	r.Body = &verifBody{Reader: strings.NewReader(body)}
	rec := &verifRecorder{hdr: http.Header{}}
	h.ServeHTTP(rec, r)
	return rec.status
}

// the same names as JSON string literals
var verifAPINamesJSON = []string{`"web"`, `"web "`, `" web"`, `"web\n"`, `"api"`}

// VerifC11API: model-based histories of <= k add / remove calls through the
// real admin HTTP handlers (JSON decoding, name handling, status codes)
// against a list of names taken verbatim: after every call the balancer lists
// exactly the model's backends; a successful remove removes that name and only
// that name; removing a name that was never added changes nothing (the handler
// answers 200 either way, which the statement does not constrain).
func VerifC11API(k int) {
	lb, cfg := verifLB()
	defer lb.Stop()
	h := NewMux(lb, cfg, lb.GetMetricsCollector())
	model := []string{"b0"}
	for i := 0; i < k; i++ {
		ni := verifrt.Choice("name", len(verifAPINames))
		name, lit := verifAPINames[ni], verifAPINamesJSON[ni]
		if verifrt.Bool("add") {
			st := verifAPICall(h, "/v1/backends/add", `{"name":`+lit+`,"address":"http://10.0.0.9:80","weight":1}`)
			if st >= 200 && st < 300 {
				model = append(model, name)
			}
		} else {
			st := verifAPICall(h, "/v1/backends/remove", `{"name":`+lit+`}`)
			if st >= 200 && st < 300 {
				var rest []string
				for _, m := range model {
					if m != name {
						rest = append(rest, m)
					}
				}
				model = rest
			}
		}
		listed := lb.ListBackends()
		verifrt.Assert(len(listed) == len(model), "after every admin call the listed backends are exactly the model's (count)")
		for _, m := range model {
			n := 0
			for _, in := range listed {
				if in.Name == m {
					n++
				}
			}
			want := 0
			for _, x := range model {
				if x == m {
					want++
				}
			}
			verifrt.Assert(n == want, "after every admin call the listed backends are exactly the model's (names verbatim)")
		}
	}
}

// tokens an operator may configure, including ones that look like shell / environment syntax
var verifTokens = []string{"tok", "$ecretAdminT0ken", "Xk9$Admin2024", "pa$$w0rd", "${HELIOS_ADMIN_TOKEN}", "a b", "%41"}

// VerifC10LoadedToken: the admin API as main builds it - the configuration goes
// through the real LoadConfig, the balancer through NewLoadBalancer, the handler
// through NewMux - with every token of a catalogue: exactly "Bearer <token as
// written in the file>" is accepted; no Authorization, the token without the
// scheme, or a truncated token get 401 and change nothing.
func VerifC10LoadedToken() {
	tok := verifTokens[verifrt.Choice("configuredToken", len(verifTokens))]
	c := &config.Config{}
	c.Server.Port = 8080
	c.LoadBalancer.Strategy = "round_robin"
	c.Backends = []config.BackendConfig{{Name: "b0", Address: "http://127.0.0.1:8081", Weight: 1}}
	c.AdminAPI.Enabled = true
	c.AdminAPI.Port = 9091
	c.AdminAPI.AuthToken = tok
	cfg, err := config.VerifLoadConfig(c)
	verifrt.Assert(err == nil && cfg != nil, "a documented configuration with an admin token loads")
	lb, err := loadbalancer.NewLoadBalancer(cfg)
	verifrt.Assert(err == nil, "the balancer starts")
	defer lb.Stop()
	h := NewMux(lb, cfg, lb.GetMetricsCollector())
	presented := []string{"", "Bearer " + tok, tok, "Bearer " + tok[:len(tok)-1], "Bearer ", "Bearer"}
	p := presented[verifrt.Choice("authorization", len(presented))]
	r := &http.Request{Method: "POST", URL: &url.URL{Path: "/v1/backends/remove"}, Header: http.Header{}, RemoteAddr: "10.0.0.1:999"}
	r.Body = &verifBody{Reader: strings.NewReader(`{"name":"b0"}`)}
	if p != "" {
		r.Header.Set("Authorization", p)
	}
	rec := &verifRecorder{hdr: http.Header{}}
	h.ServeHTTP(rec, r)
	exact := p == "Bearer "+tok
	verifrt.Assert(exact == (rec.status != http.StatusUnauthorized), "exactly 'Bearer <token as configured in the file>' is accepted; everything else is answered 401")
	verifrt.Assert(exact == (len(lb.ListBackends()) == 0), "a refused request changes nothing; the authorised remove takes effect")
}
