package adminapi

import (
	"net"

	"github.com/0xReLogic/Helios/internal/verifrt"
)

// This file uses only NewIPFilter and IsAllowed, so that it keeps compiling
// when the filter's internal representation is refactored.

var verifCatalogueEntries = []string{"10.0.0.0/8", "203.0.113.7", "fe80::/10", "::/0", "0.0.0.0/0", "2001:db8::/32", "::ffff:10.0.0.0/104",
	// single addresses in their other spellings: IPv4-mapped, plain IPv6
	"::ffff:203.0.113.7", "2001:db8::1", "::1"}

// the same entries in CIDR form for the reference computation
var verifCatalogueCIDR = []string{"10.0.0.0/8", "203.0.113.7/32", "fe80::/10", "::/0", "0.0.0.0/0", "2001:db8::/32", "::ffff:10.0.0.0/104",
	"203.0.113.7/32", "2001:db8::1/128", "::1/128"}

type verifPeer struct {
	text     string // as the peer address reaches IsAllowed
	semantic string // the address it denotes ("" = not an address)
	zoned    bool
}

var verifCataloguePeers = []verifPeer{
	{"10.1.2.3", "10.1.2.3", false},
	{"203.0.113.7", "203.0.113.7", false},
	{"::ffff:10.1.2.3", "10.1.2.3", false},
	{"::ffff:203.0.113.7", "203.0.113.7", false},
	{"2001:db8::1", "2001:db8::1", false},
	{"fe80::1", "fe80::1", false},
	{"fe80::1%eth0", "fe80::1", true},
	{"::1", "::1", false},
	{"not-an-address", "", false},
	{"", "", false},
}

// VerifC10Catalogue: the public constructor and IsAllowed over a catalogue of
// list entries (IPv4 / IPv6 networks, a bare address, catch-alls, an
// IPv4-mapped network) and peer spellings (plain, IPv4-mapped IPv6, zoned IPv6,
// garbage). Reference: net's own parsing and IPNet.Contains on the address the
// peer text denotes - deny wins, an empty allow list admits, anything that is
// not an address is refused; a zoned address may be refused outright but must
// never be served against the lists.
func VerifC10Catalogue() {
	none := len(verifCatalogueEntries)
	a := verifrt.Choice("allowEntry", none+1)
	d := verifrt.Choice("denyEntry", none+1)
	p := verifCataloguePeers[verifrt.Choice("peer", len(verifCataloguePeers))]
	var allow, deny []string
	if a != none {
		allow = []string{verifCatalogueEntries[a]}
	}
	if d != none {
		deny = []string{verifCatalogueEntries[d]}
	}
	f, err := NewIPFilter(allow, deny)
	verifrt.Assert(err == nil && f != nil, "well-formed lists are accepted")
	got := f.IsAllowed(p.text)
	if p.semantic == "" {
		verifrt.Assert(!got, "an unparsable peer address is refused")
		return
	}
	sem := net.ParseIP(p.semantic)
	member := func(i int) bool {
		_, n, err := net.ParseCIDR(verifCatalogueCIDR[i])
		return err == nil && n.Contains(sem)
	}
	want := (a == none || member(a)) && !(d != none && member(d))
	if p.zoned {
		verifrt.Assert(!got || want, "a zoned peer address is never served against the lists (refusing it outright is fine)")
		return
	}
	verifrt.Assert(got == want, "served exactly when the peer is in no deny entry and (the allow list is empty or contains it), whatever the spelling of the peer address")
}
