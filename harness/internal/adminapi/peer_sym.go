package adminapi

import "github.com/0xReLogic/Helios/internal/verifrt"

// verifPeerText: the textual peer address. Under the executor it is a marker
// that the net.ParseIP model resolves to the (symbolic) address bytes.
func verifPeerText(kind int, b []byte) string {
	switch kind {
	case 0, 2: // IPv4 dotted quad / IPv4-mapped IPv6 text: ParseIP yields the 16-byte v4-in-v6 form
		ip := make([]byte, 16)
		ip[10], ip[11] = 0xff, 0xff
		copy(ip[12:], b[:4])
		verifrt.SymIP("<symbolic peer>", ip)
		return "<symbolic peer>"
	case 1:
		ip := make([]byte, 16)
		copy(ip, b[:16])
		verifrt.SymIP("<symbolic peer>", ip)
		return "<symbolic peer>"
	}
	return "not-an-ip"
}
