package adminapi

import "net"

func verifPeerText(kind int, b []byte) string {
	switch kind {
	case 0:
		return net.IP(b[:4]).String()
	case 2:
		return "::ffff:" + net.IP(b[:4]).String()
	case 1:
		return net.IP(b[:16]).String()
	}
	return "not-an-ip"
}
