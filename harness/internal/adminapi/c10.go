package adminapi

import (
	"net"
	"net/http"
	"net/url"
	"strings"

	"github.com/0xReLogic/Helios/internal/config"
	"github.com/0xReLogic/Helios/internal/loadbalancer"
	"github.com/0xReLogic/Helios/internal/verifrt"
)

type verifRecorder struct {
	hdr    http.Header
	status int
	body   []byte
}

func (r *verifRecorder) Header() http.Header { return r.hdr }
func (r *verifRecorder) WriteHeader(c int) {
	if r.status == 0 {
		r.status = c
	}
}
func (r *verifRecorder) Write(b []byte) (int, error) {
	if r.status == 0 {
		r.status = 200
	}
	r.body = append(r.body, b...)
	return len(b), nil
}

func verifLB() (*loadbalancer.LoadBalancer, *config.Config) {
	cfg := &config.Config{}
	cfg.Server.Port = 8080
	cfg.LoadBalancer.Strategy = "round_robin"
	cfg.Backends = []config.BackendConfig{{Name: "b0", Address: "http://127.0.0.1:8081", Weight: 1}}
	lb, err := loadbalancer.NewLoadBalancer(cfg)
	if err != nil {
		panic(err)
	}
	return lb, cfg
}

var verifPaths = []string{"/v1/health", "/v1/metrics", "/v1/backends", "/v1/backends/add", "/v1/backends/remove", "/v1/strategy", "/v1/unknown"}
var verifBodies = []string{"", `{"name":"evil","address":"http://10.9.9.9:1","weight":3}`, `{"name":"b0"}`, `{"strategy":"ip_hash"}`}

// VerifC10Bearer: with a token configured, every endpoint except /v1/health
// answers 401, changes nothing and reveals nothing unless the request carries
// exactly "Bearer <token>" - for every Authorization value of length l.
func VerifC10Bearer(l int) {
	lb, cfg := verifLB()
	defer lb.Stop()
	cfg.AdminAPI.AuthToken = "tok"
	h := NewMux(lb, cfg, lb.GetMetricsCollector())
	path := verifPaths[verifrt.Choice("path", len(verifPaths))]
	method := []string{"GET", "POST", "DELETE", "OPTIONS", "HEAD"}[verifrt.Choice("method", 5)]
	authz := verifrt.String("authorization", l)
	r := &http.Request{Method: method, URL: &url.URL{Path: path}, Header: http.Header{}, RemoteAddr: "10.0.0.1:999"}
	r.Body = http.NoBody
	if b := verifBodies[verifrt.Choice("body", len(verifBodies))]; b != "" {
		r.Body = &verifBody{Reader: strings.NewReader(b)}
	}
	if verifrt.Bool("looksLikeACORSPreflight") {
		r.Header.Set("Origin", "http://dashboard.example")
		r.Header.Set("Access-Control-Request-Method", "GET")
	}
	if verifrt.Bool("authorizationPresent") {
		r.Header.Set("Authorization", authz)
		if verifrt.Bool("secondAuthorizationValueIsValid") {
			r.Header.Add("Authorization", "Bearer tok")
		}
	} else {
		authz = ""
	}
	before := lb.ListBackends()
	rec := &verifRecorder{hdr: http.Header{}}
	h.ServeHTTP(rec, r)
	after := lb.ListBackends()
	exact := authz == "Bearer tok"
	if path == "/v1/health" {
		verifrt.Assert(rec.status == 200, "/v1/health needs no token")
		return
	}
	if path == "/v1/unknown" {
		verifrt.Assert(rec.status == 404, "unknown paths are not served")
		return
	}
	verifrt.Assert(verifrt.Implies(!exact, rec.status == http.StatusUnauthorized && string(rec.body) == "unauthorized"), "without exactly 'Bearer <token>' the answer is 401 and reveals nothing")
	verifrt.Assert(verifrt.Implies(!exact, len(before) == len(after) && cfg.LoadBalancer.Strategy == "round_robin"), "without exactly 'Bearer <token>' nothing changes (backend list, strategy)")
	verifrt.Assert(verifrt.Implies(exact, rec.status != http.StatusUnauthorized), "the exact bearer token is accepted")
}

type verifBody struct{ *strings.Reader }

func (verifBody) Close() error { return nil }

func verifMask(ones, bits int) net.IPMask { return net.CIDRMask(ones, bits) }

// verifNet builds a network directly: family 0 = IPv4 (4-byte IP/mask as
// ParseCIDR yields), 1 = IPv6; base bytes arbitrary, canonicalised by the mask.
// verifSparse: when set, only six of the sixteen IPv6 bytes are symbolic (the rest are zero).
var verifSparse = true

func verifV6Byte(name string, i int) byte {
	if verifSparse && i != 0 && i != 1 && i != 7 && i != 8 && i != 14 && i != 15 {
		return 0
	}
	return verifrt.Byte(name)
}

func verifNet(name string) (*net.IPNet, int) {
	fam := verifrt.Choice(name+".family", 2)
	n := 4
	prefixes := []int{0, 8, 24, 31, 32}
	if fam == 1 {
		n = 16
		prefixes = []int{0, 64, 127, 128}
	}
	ones := prefixes[verifrt.Choice(name+".prefix", len(prefixes))]
	mask := verifMask(ones, n*8)
	ip := make(net.IP, n)
	for i := range ip {
		if fam == 1 {
			ip[i] = verifV6Byte(name+".base", i) & mask[i]
		} else {
			ip[i] = verifrt.Byte(name+".base") & mask[i]
		}
	}
	if fam == 1 {
		// Go treats an IPv4-mapped IPv6 network as the IPv4 network it embeds; such entries are outside this harness
		mapped := true
		for i := 0; i < 10; i++ {
			mapped = verifrt.And(mapped, ip[i] == 0)
		}
		verifrt.Assume(!verifrt.And(mapped, verifrt.And(ip[10] == 0xff, ip[11] == 0xff)))
	}
	return &net.IPNet{IP: ip, Mask: mask}, fam
}

// verifMember is the documented CIDR membership: same family and equal under the mask.
func verifMember(n *net.IPNet, fam int, peerFam int, peer []byte) bool {
	if fam != peerFam {
		return false
	}
	ok := true
	for i := range n.IP {
		ok = verifrt.And(ok, n.IP[i] == peer[i]&n.Mask[i])
	}
	return ok
}

// VerifC10Filter: IsAllowed against the documented rule
// served <=> parsable AND not in any deny entry AND (allow list empty OR in some allow entry).
func VerifC10Filter(nAllow, nDeny, sparse int) {
	verifSparse = sparse != 0
	f := &IPFilter{}
	var allowFam, denyFam []int
	for i := 0; i < nAllow; i++ {
		n, fam := verifNet("allow")
		f.allowList = append(f.allowList, n)
		allowFam = append(allowFam, fam)
	}
	for i := 0; i < nDeny; i++ {
		n, fam := verifNet("deny")
		f.denyList = append(f.denyList, n)
		denyFam = append(denyFam, fam)
	}
	kind := verifrt.Choice("peerKind", 4) // IPv4, IPv6, IPv4-mapped IPv6, unparsable
	b := make([]byte, 16)
	for i := range b {
		if kind == 1 {
			b[i] = verifV6Byte("peer", i)
		} else if i < 4 {
			b[i] = verifrt.Byte("peer")
		}
	}
	peerFam := 0
	if kind == 1 {
		peerFam = 1
		// a 16-byte address that is IPv4-mapped is an IPv4 peer for membership purposes
		mapped := true
		for i := 0; i < 10; i++ {
			mapped = verifrt.And(mapped, b[i] == 0)
		}
		mapped = verifrt.And(mapped, verifrt.And(b[10] == 0xff, b[11] == 0xff))
		verifrt.Assume(!mapped)
	}
	got := f.IsAllowed(verifPeerText(kind, b))
	if kind == 3 {
		verifrt.Assert(!got, "an unparsable peer address is refused")
		return
	}
	denied, allowed := false, nAllow == 0
	for i, n := range f.denyList {
		denied = verifrt.Or(denied, verifMember(n, denyFam[i], peerFam, b))
	}
	for i, n := range f.allowList {
		allowed = verifrt.Or(allowed, verifMember(n, allowFam[i], peerFam, b))
	}
	verifrt.Assert(got == verifrt.And(!denied, allowed), "served exactly when the peer is in no deny entry and (the allow list is empty or contains it): deny wins")
}

// VerifC10Headers (2-safety): the filter's decision depends on the peer
// address only, not on client-supplied X-Forwarded-For / X-Real-IP.
func VerifC10Headers() {
	f, err := NewIPFilter([]string{"10.0.0.0/8"}, []string{"10.6.6.6"})
	verifrt.Assert(err == nil, "well-formed lists are accepted")
	// peer addresses as net/http reports them, and the port-less / unparsable forms other servers or tests produce
	peers := []string{"10.1.2.3:999", "10.6.6.6:999", "203.0.113.9:999", "10.1.2.3", "203.0.113.9", "10.6.6.6", "@", "", "[2001:db8::1]", "2001:db8::1"}
	pi := verifrt.Choice("peer", len(peers))
	peer := peers[pi]
	served := func(xff, xri string) bool {
		hit := false
		h := f.Middleware(http.HandlerFunc(func(http.ResponseWriter, *http.Request) { hit = true }))
		r := &http.Request{Method: "GET", URL: &url.URL{Path: "/v1/backends"}, Header: http.Header{}, RemoteAddr: peer}
		if xff != "" {
			r.Header.Set("X-Forwarded-For", xff)
		}
		if xri != "" {
			r.Header.Set("X-Real-IP", xri)
		}
		h.ServeHTTP(&verifRecorder{hdr: http.Header{}}, r)
		return hit
	}
	forged := []string{"", "10.1.2.3", "10.6.6.6", "203.0.113.9", "10.1.2.3, 203.0.113.9", "junk"}
	plain := served("", "")
	withHeaders := served(forged[verifrt.Choice("xff", len(forged))], forged[verifrt.Choice("xri", 4)])
	verifrt.Assert(plain == withHeaders, "the decision does not depend on client-supplied X-Forwarded-For / X-Real-IP")
	if pi != 3 {
		// (an allowed address reported without a port - pi == 3 - may be served or refused as unparsable; never on the headers' say-so)
		verifrt.Assert(plain == (pi == 0), "the decision follows the peer address")
	}
}

// VerifC10FailClosed: a malformed list entry never results in an unfiltered API.
func VerifC10FailClosed() {
	lb, cfg := verifLB()
	defer lb.Stop()
	bad := []string{"10.0.0.0/33", "not-a-cidr", "10.0.0.256", "", "  ", "10.0.0.0/8/8"}[verifrt.Choice("malformedEntry", 6)]
	switch verifrt.Choice("placement", 4) {
	case 0: // next to a well-formed allow entry
		cfg.AdminAPI.IPAllowList = []string{"10.0.0.0/8", bad}
	case 1: // in the deny list
		cfg.AdminAPI.IPAllowList = []string{"10.0.0.0/8"}
		cfg.AdminAPI.IPDenyList = []string{bad}
	case 2: // the allow list consists of the malformed entry only
		cfg.AdminAPI.IPAllowList = []string{bad}
	case 3: // the deny list consists of the malformed entry only (the operator meant to deny someone)
		cfg.AdminAPI.IPDenyList = []string{bad}
	}
	h := NewMux(lb, cfg, lb.GetMetricsCollector())
	r := &http.Request{Method: "GET", URL: &url.URL{Path: "/v1/backends"}, Header: http.Header{}, RemoteAddr: "203.0.113.9:999", Body: http.NoBody}
	rec := &verifRecorder{hdr: http.Header{}}
	h.ServeHTTP(rec, r)
	verifrt.Assert(rec.status != http.StatusOK, "a configured IP list with a malformed entry never results in an unfiltered API (the peer is refused)")
}
