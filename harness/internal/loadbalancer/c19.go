package loadbalancer

import (
	"context"
	"errors"
	"net/http"
	"sync/atomic"
	"time"

	"github.com/0xReLogic/Helios/internal/verifrt"
)

var verifProbesSent int32
var verifStopReturned int32
var verifProbeAfterStop int32

// verifProbeMode selects what a backend does with a health probe.
var verifProbeMode int32 // 0: refuses the connection, 1: accepts and never answers (hung backend), 2: answers 200

// verifClientDo replaces (*http.Client).Do under the executor, so that the real
// performHealthCheck (request construction, its context, the client timeout)
// is executed. A hung backend holds the probe until the request's context is
// done or the client's own timeout fires - exactly what net/http does.
func verifClientDo(c *http.Client, req *http.Request) (*http.Response, error) {
	atomic.AddInt32(&verifProbesSent, 1)
	if atomic.LoadInt32(&verifStopReturned) == 1 {
		atomic.StoreInt32(&verifProbeAfterStop, 1)
	}
	verifrt.Yield()
	switch atomic.LoadInt32(&verifProbeMode) {
	case 1:
		ctx := req.Context()
		if c.Timeout > 0 {
			var cancel context.CancelFunc
			ctx, cancel = context.WithTimeout(ctx, c.Timeout)
			defer cancel()
		}
		<-ctx.Done()
		return nil, ctx.Err()
	case 2:
		return &http.Response{StatusCode: http.StatusOK, Body: http.NoBody}, nil
	}
	return nil, errors.New("verif: connection refused")
}

func verifStoppableLB(n int, withPool bool, realPool bool) (*LoadBalancer, []*verifConn) {
	lb := verifBareLB(0)
	lb.ctx, lb.cancel = context.WithCancel(context.Background())
	lb.healthChecks.activeEnabled = true
	lb.healthChecks.activePath = "/health"
	lb.healthChecks.activeTimeout = time.Second
	for i := 0; i < n; i++ {
		b := verifBackend(i)
		b.URL.Host = verifProbeTarget()
		lb.strategy.AddBackend(b)
	}
	var conns []*verifConn
	if withPool {
		if realPool {
			lb.wsPool = NewWebSocketPool(2, 10, time.Minute) // the real constructor (starts the cleanup goroutine)
		} else {
			lb.wsPool = &WebSocketPool{pools: make(map[string]*connPool), maxIdle: 2, maxActive: 10, idleTimeout: time.Minute}
		}
		for i := 0; i < 2; i++ {
			c := &verifConn{id: i}
			conns = append(conns, c)
			lb.wsPool.Put("x", c)
		}
	}
	return lb, conns
}

// VerifC19Stop: Stop() racing the real health-check goroutine (started by the
// real startHealthChecks: an initial round of probes, then one more round per
// tick; the executor grants `ticks` firings), and Stop() racing Stop(). Stop must terminate (built-in deadlock
// detection), close every pooled connection, be harmless when repeated, and
// the probe accounting must not be misused (WaitGroup Add concurrent with Wait).
func VerifC19Stop(mode int, n int, ticks int) {
	atomic.StoreInt32(&verifProbesSent, 0)
	atomic.StoreInt32(&verifStopReturned, 0)
	atomic.StoreInt32(&verifProbeAfterStop, 0)
	atomic.StoreInt32(&verifProbeMode, 0)
	lb, conns := verifStoppableLB(n, true, true)
	verifrt.Settle() // the pool's cleanup goroutine is parked on its ticker before the race begins
	stopped := int32(0)
	switch mode {
	case 0: // the health-check goroutine (initial round + ticks) racing Stop
		lb.healthChecks.activeInterval = time.Millisecond
		verifrt.Ticks(ticks)
		lb.startHealthChecks()
		verifrt.Go(func() { lb.Stop(); atomic.StoreInt32(&verifStopReturned, 1); atomic.StoreInt32(&stopped, 1) })
	case 3, 4: // Stop while a probe is in flight to a hung (3) / healthy (4) backend
		atomic.StoreInt32(&verifProbeMode, int32(mode-2))
		lb.healthChecks.activeTimeout = time.Duration(verifrt.IntRange("active_timeout_ns", int(time.Millisecond), int(3*time.Second)))
		lb.healthChecks.activeInterval = lb.healthChecks.activeTimeout + time.Second
		budget := time.Duration(verifrt.IntRange("shutdown_timeout_ns", int(time.Second), int(2*time.Second)))
		verifrt.Ticks(ticks)
		lb.startHealthChecks()
		verifrt.Go(func() {
			sw := verifrt.StartStopwatch()
			lb.Stop()
			el := verifrt.Elapsed(sw)
			atomic.StoreInt32(&verifStopReturned, 1)
			atomic.StoreInt32(&stopped, 1)
			verifrt.Assert(el <= budget, "Stop completes within the shutdown timeout even with a probe in flight to a backend that never answers")
		})
	case 5: // active checks disabled: Stop still shuts the pool down
		lb.healthChecks.activeEnabled = false
		lb.Stop()
		atomic.StoreInt32(&stopped, 1)
	case 1: // two concurrent Stops (the signal handler and a deferred Stop): whichever returns, the shutdown is complete
		done := func() {
			for _, c := range conns {
				verifrt.Assert(c.closed, "when Stop returns - to any of its concurrent callers - the pooled connections are closed")
			}
		}
		verifrt.Go(func() { lb.Stop(); done() })
		verifrt.Go(func() { lb.Stop(); done(); atomic.StoreInt32(&stopped, 1) })
	case 2: // Stop, then a late tick, then Stop again
		lb.Stop()
		lb.checkBackendsHealth()
		lb.Stop()
		atomic.StoreInt32(&stopped, 1)
	}
	verifrt.WaitAll()
	lb.healthCheckWg.Wait() // quiescence: probe goroutines spawned by the tick have finished
	verifrt.Assert(atomic.LoadInt32(&stopped) == 1, "Stop returns")
	for _, c := range conns {
		verifrt.Assert(c.closed, "pooled connections are closed by shutdown")
	}
	verifrt.Assert(atomic.LoadInt32(&verifProbeAfterStop) == 0, "no health probe is sent after Stop has returned")
	if mode == 2 {
		verifrt.Assert(atomic.LoadInt32(&verifProbesSent) == 0, "a tick after Stop sends no probe at all")
	}
}
