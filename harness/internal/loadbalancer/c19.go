package loadbalancer

import (
	"context"
	"errors"
	"net/http"
	"sync/atomic"
	"time"

	"github.com/0xReLogic/Helios/internal/verifrt"
)

var verifProbesSent int32
var verifStopReturned int32
var verifProbeAfterStop int32

// verifStubProbe replaces performHealthCheck under the executor: the probe is
// "sent" (counted) and fails like a refused connection. Natively the real
// performHealthCheck dials the backend address 127.0.0.1:1, which is refused.
func verifStubProbe(lb *LoadBalancer, backend *Backend) (*http.Response, error) {
	atomic.AddInt32(&verifProbesSent, 1)
	if atomic.LoadInt32(&verifStopReturned) == 1 {
		atomic.StoreInt32(&verifProbeAfterStop, 1)
	}
	verifrt.Yield()
	return nil, errors.New("verif: connection refused")
}

func verifStoppableLB(n int, withPool bool, realPool bool) (*LoadBalancer, []*verifConn) {
	lb := verifBareLB(0)
	lb.ctx, lb.cancel = context.WithCancel(context.Background())
	lb.healthChecks.activeEnabled = true
	lb.healthChecks.activePath = "/health"
	lb.healthChecks.activeTimeout = time.Second
	for i := 0; i < n; i++ {
		b := verifBackend(i)
		b.URL.Host = verifProbeTarget()
		lb.strategy.AddBackend(b)
	}
	var conns []*verifConn
	if withPool {
		if realPool {
			lb.wsPool = NewWebSocketPool(2, 10, time.Minute) // the real constructor (starts the cleanup goroutine)
		} else {
			lb.wsPool = &WebSocketPool{pools: make(map[string]*connPool), maxIdle: 2, maxActive: 10, idleTimeout: time.Minute}
		}
		for i := 0; i < 2; i++ {
			c := &verifConn{id: i}
			conns = append(conns, c)
			lb.wsPool.Put("x", c)
		}
	}
	return lb, conns
}

// VerifC19Stop: Stop() racing the real health-check goroutine (started by the
// real startHealthChecks: an initial round of probes, then one more round per
// tick; the executor grants `ticks` firings), and Stop() racing Stop(). Stop must terminate (built-in deadlock
// detection), close every pooled connection, be harmless when repeated, and
// the probe accounting must not be misused (WaitGroup Add concurrent with Wait).
func VerifC19Stop(mode int, n int, ticks int) {
	atomic.StoreInt32(&verifProbesSent, 0)
	atomic.StoreInt32(&verifStopReturned, 0)
	atomic.StoreInt32(&verifProbeAfterStop, 0)
	lb, conns := verifStoppableLB(n, true, mode != 0)
	stopped := int32(0)
	switch mode {
	case 0: // the health-check goroutine (initial round + ticks) racing Stop
		lb.healthChecks.activeInterval = time.Millisecond
		verifrt.Ticks(ticks)
		lb.startHealthChecks()
		verifrt.Go(func() { lb.Stop(); atomic.StoreInt32(&verifStopReturned, 1); atomic.StoreInt32(&stopped, 1) })
	case 1: // two concurrent Stops
		verifrt.Go(func() { lb.Stop() })
		verifrt.Go(func() { lb.Stop(); atomic.StoreInt32(&stopped, 1) })
	case 2: // Stop, then a late tick, then Stop again
		lb.Stop()
		lb.checkBackendsHealth()
		lb.Stop()
		atomic.StoreInt32(&stopped, 1)
	}
	verifrt.WaitAll()
	lb.healthCheckWg.Wait() // quiescence: probe goroutines spawned by the tick have finished
	verifrt.Assert(atomic.LoadInt32(&stopped) == 1, "Stop returns")
	for _, c := range conns {
		verifrt.Assert(c.closed, "pooled connections are closed by shutdown")
	}
	verifrt.Assert(atomic.LoadInt32(&verifProbeAfterStop) == 0, "no health probe is sent after Stop has returned")
	if mode == 2 {
		verifrt.Assert(atomic.LoadInt32(&verifProbesSent) == 0, "a tick after Stop sends no probe at all")
	}
}
