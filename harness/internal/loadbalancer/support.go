package loadbalancer

import (
	"net/http"
	"net/url"
	"sync"
	"sync/atomic"
	"time"

	"github.com/0xReLogic/Helios/internal/config"
	"github.com/0xReLogic/Helios/internal/ratelimiter"
	"github.com/0xReLogic/Helios/internal/verifrt"
)

var verifStrategyNames = []string{"round_robin", "least_connections", "weighted_round_robin", "ip_hash", "ip_hash_consistent"}

var verifNames = []string{"b0", "b1", "b2", "b3", "b4", "b5", "b6", "b7", "b8", "b9", "b10", "b11", "b12", "b13", "b14", "b15"}

// verifBareLB builds a balancer directly (no goroutines, no sockets), the way
// the repository's own TestHealthChecks does.
func verifBareLB(strategy int) *LoadBalancer {
	cfg := &config.Config{}
	cfg.LoadBalancer.Strategy = verifStrategyNames[strategy]
	return &LoadBalancer{
		strategy: createStrategy(verifStrategyNames[strategy]),
		config:   cfg,
		healthChecks: &healthChecker{
			passiveTimeout:    30 * time.Second,
			unhealthyBackends: make(map[string]int),
		},
	}
}

// verifPorts: the backends of a pool live on one host and differ in their port,
// like the backends of the shipped sample configuration (localhost:8081, :8082, ...).
var verifPorts = []string{"8081", "8082", "8083", "8084", "8085", "8086", "8087", "8088", "8089", "8090", "8091", "8092", "8093", "8094", "8095", "8096"}

func verifBackend(i int) *Backend {
	return &Backend{Name: verifNames[i], URL: &url.URL{Scheme: "http", Host: "127.0.0.1:" + verifPorts[i]}, IsHealthy: true, Weight: 1}
}

// verifArbHealth gives a backend an arbitrary health state: flag, and a window
// end that is the zero time or any instant within 2^40 ns of now.
func verifArbHealth(b *Backend) {
	b.IsHealthy = verifrt.Bool("healthy")
	if verifrt.Bool("untilSet") {
		b.UnhealthyUntil = verifrt.Now().Add(time.Duration(verifrt.IntRange("untilOff", -(1 << 40), 1<<40)))
	}
}

// verifInWindow: the backend is inside an unhealthy window right now.
func verifInWindow(b *Backend) bool {
	return verifrt.And(!b.IsHealthy, !verifrt.Now().After(b.UnhealthyUntil))
}

func verifRequest(client string) *http.Request {
	return &http.Request{Method: "GET", URL: &url.URL{Path: "/"}, Header: http.Header{}, RemoteAddr: client}
}

// verifPool fills the balancer's strategy with n backends in arbitrary
// health / gauge / weight / rotation state.
func verifPool(lb *LoadBalancer, strategy, n int, arbHealth bool) []*Backend {
	bs := make([]*Backend, n)
	for i := 0; i < n; i++ {
		b := verifBackend(i)
		if arbHealth {
			verifArbHealth(b)
		}
		switch strategy {
		case 1:
			b.ActiveConnections = int32(verifrt.IntRange("gauge", 0, 1<<30))
			b.Weight = verifrt.IntRange("weight", 0, 3) // least_connections must not look at weights
		case 2:
			b.Weight = verifrt.IntRange("weight", 1, 1<<10)
		}
		lb.strategy.AddBackend(b)
		bs[i] = b
	}
	switch s := lb.strategy.(type) {
	case *RoundRobinStrategy:
		verifSetRotation(&s.current)
	case *WeightedRoundRobinStrategy:
		for _, wb := range s.backends {
			wb.currentWeight = verifrt.IntRange("currentWeight", -(1 << 20), 1<<20)
		}
	}
	return bs
}

func verifIndexOf(bs []*Backend, b *Backend) int {
	for i, x := range bs {
		if x == b {
			return i
		}
	}
	return -1
}

// ---------------------------------------------------------------- client connection model

// verifRecorder is the client side of the connection as net/http's
// ResponseWriter contract defines it: the first final WriteHeader wins and
// freezes a snapshot of the header map (what goes on the wire), the first
// Write or Flush implies WriteHeader(200), interim 1xx headers are forwarded.
type verifRecorder struct {
	hdr         http.Header
	wroteHeader bool
	status      int
	wire        http.Header // header snapshot at WriteHeader time
	bodyLen     int
	writes      int
	interim     int
	flushes     int
	hijacks     int
	superfluous int
}

func verifNewRecorder() *verifRecorder { return &verifRecorder{hdr: http.Header{}} }

func (r *verifRecorder) Header() http.Header { return r.hdr }

func (r *verifRecorder) WriteHeader(code int) {
	if code >= 100 && code < 200 && code != 101 {
		r.interim++
		return
	}
	if r.wroteHeader {
		r.superfluous++
		return
	}
	r.wroteHeader = true
	r.status = code
	r.wire = r.hdr.Clone()
}

func (r *verifRecorder) Write(b []byte) (int, error) {
	if !r.wroteHeader {
		r.WriteHeader(http.StatusOK)
	}
	r.bodyLen += len(b)
	r.writes++
	return len(b), nil
}

func (r *verifRecorder) Flush() {
	if !r.wroteHeader {
		r.WriteHeader(http.StatusOK)
	}
	r.flushes++
}

// finish is what the server does when the handler returns.
func (r *verifRecorder) finish() {
	if !r.wroteHeader {
		r.WriteHeader(http.StatusOK)
	}
}

// ---------------------------------------------------------------- backend / reverse-proxy model

// verifFakeRT is the scripted backend. Natively it is the RoundTripper of a
// REAL httputil.ReverseProxy; under the symbolic executor
// (*httputil.ReverseProxy).ServeHTTP is redirected to verifStubProxy, which
// reads the same script.
type verifFakeRT struct {
	name string
}

var verifProxyHits = map[string]int{}

const (
	verifOutStatus  = 0 // backend answers with a status and a small body
	verifOutRefused = 1 // connection refused -> default error handler -> 502
	verifOutAbort   = 2 // response aborted mid-body -> panic(http.ErrAbortHandler)
)

// verifNextOutcome reads the next scripted backend behaviour.
func verifNextOutcome(req *http.Request) (kind int, status int) {
	if req != nil {
		// a request may carry its own scripted outcome (concurrent harnesses: no shared script)
		switch req.Header.Get("X-Verif-Outcome") {
		case "200":
			verifSetLast(verifOutStatus, 200)
			return verifOutStatus, 200
		case "503":
			verifSetLast(verifOutStatus, 503)
			return verifOutStatus, 503
		}
	}
	if verifForceOK {
		verifSetLast(verifOutStatus, 200)
		return verifOutStatus, 200
	}
	kind = verifrt.Choice("backendOutcome", 3)
	status = 200
	if kind != verifOutRefused {
		status = verifrt.IntRange("backendStatus", 200, 599)
	}
	verifSetLast(kind, status)
	return
}

// verifInterims: how many interim 103 Early Hints responses (each carrying its
// own Link header) the scripted backend sends before its final status: 0..2.
var verifNoInterim = true

const verifInterimHeader = "Link"

func verifInterims() int {
	if verifForceOK || verifNoInterim {
		return 0
	}
	return verifrt.Choice("backendInterims", 3)
}

// verifInterimStatus: which informational status an interim response carries (any 1xx but 101 is relayed alike).
func verifInterimStatus() int {
	return []int{http.StatusEarlyHints, http.StatusContinue, http.StatusProcessing}[verifrt.Choice("interimStatus", 3)]
}

// harness-owned shared state is guarded by its own mutex so that concurrent
// harnesses do not introduce races of their own
var (
	verifMu                        sync.Mutex
	verifLastKind, verifLastStatus int
)

func verifSetLast(kind, status int) {
	verifMu.Lock()
	verifLastKind, verifLastStatus = kind, status
	verifMu.Unlock()
}

var verifUpgradeDeadline bool

func verifSetUpgradeDeadline(has bool) {
	verifMu.Lock()
	verifUpgradeDeadline = has
	verifMu.Unlock()
}

func verifHit(name string) {
	verifMu.Lock()
	verifProxyHits[name]++
	verifMu.Unlock()
}

// verifServerCtx marks a request as running under an http.Server (native replay only).
var verifServerCtx = func(r *http.Request) *http.Request { return r }

func verifLimiterCleanup(rl *ratelimiter.TokenBucketRateLimiter) { ratelimiter.VerifCleanup(rl) }

// verifSetRotation puts the round-robin cursor at an arbitrary reachable
// position, whatever integer type the strategy keeps it in. A 64-bit cursor
// cannot reach 2^63 (that many requests never happen); a 32-bit one wraps after
// 2^32 requests - days of traffic - so every value of it is reachable,
// including the ones next to the wrap-around.
func verifSetRotation(p any) {
	v := verifrt.Uint64("rotation")
	switch q := p.(type) {
	case *uint64:
		verifrt.Assume(v < 1<<63)
		*q = v
	case *int64:
		verifrt.Assume(v < 1<<62)
		*q = int64(v)
	case *uint:
		verifrt.Assume(v < 1<<63)
		*q = uint(v)
	case *int:
		verifrt.Assume(v < 1<<62)
		*q = int(v)
	case *uint32:
		verifrt.Assume(v < 1<<32)
		*q = uint32(v)
	case *int32:
		verifrt.Assume(v < 1<<31)
		*q = int32(v)
	case *atomic.Uint64:
		verifrt.Assume(v < 1<<63)
		q.Store(v)
	case *atomic.Int64:
		verifrt.Assume(v < 1<<62)
		q.Store(int64(v))
	case *atomic.Uint32:
		verifrt.Assume(v < 1<<32)
		q.Store(uint32(v))
	default:
		// a representation the harness does not know: the cursor stays where the constructor put it
		// (fewer rotation positions are covered, nothing is claimed that does not hold)
	}
}
