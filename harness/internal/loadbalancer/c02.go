package loadbalancer

import (
	"time"

	"github.com/0xReLogic/Helios/internal/verifrt"
)

// VerifC02Dispatch: one dispatch decision (the real findHealthyBackend ->
// NextBackend -> strategy -> IsBackendHealthy) from an arbitrary pool state.
//
//	O1: a backend that is dispatched to is not inside an unhealthy window;
//	O2: "no healthy backend" only if every backend is inside its window.
func VerifC02Dispatch(strategy int, n int, clientLen int) {
	if clientLen == 0 {
		clientLen = 3
	}
	lb := verifBareLB(strategy)
	bs := verifPool(lb, strategy, n, true)
	// pre-state window membership
	inWin := make([]bool, n)
	allIn := true
	for i, b := range bs {
		inWin[i] = verifInWindow(b)
		allIn = verifrt.And(allIn, inWin[i])
	}
	var r = verifRequest("10.1.2.3:4711")
	if strategy == 3 {
		// any 3-byte client attribution: every FNV value modulo the eligible count
		r.Header.Set("X-Forwarded-For", verifrt.String("client", clientLen))
	}

	got := lb.findHealthyBackend(r)
	if got != nil {
		i := verifIndexOf(bs, got)
		verifrt.Assert(i >= 0, "dispatch target is a member of the pool")
		verifrt.Assert(!inWin[i], "a dispatched-to backend is not inside an unhealthy window")
	} else {
		verifrt.Assert(allIn, "503 (no healthy backend) only if every backend is inside its unhealthy window")
	}
}

// VerifC02Sequence: k dispatch decisions in a row from an arbitrary pool state,
// with an arbitrary amount of time (including none) and arbitrary fresh
// ejections (through the real MarkBackendUnhealthy) between them. Whatever the
// earlier requests left behind (refreshed flags, cursors, anything a request
// caches), every decision satisfies O1 and O2 against the windows as they are at
// that moment.
func VerifC02Sequence(strategy int, n int, k int) {
	lb := verifBareLB(strategy)
	bs := verifPool(lb, strategy, n, true)
	r := verifRequest("10.1.2.3:4711")
	for step := 0; step < k; step++ {
		if step > 0 {
			verifrt.Advance(time.Duration(verifrt.IntRange("dt", 0, 1<<41)))
			for _, b := range bs {
				if verifrt.Bool("eject") {
					lb.MarkBackendUnhealthy(b, time.Duration(verifrt.IntRange("window", 1, 1<<40)))
				}
			}
		}
		inWin := make([]bool, n)
		allIn := true
		for i, b := range bs {
			inWin[i] = verifInWindow(b)
			allIn = verifrt.And(allIn, inWin[i])
		}
		got := lb.findHealthyBackend(r)
		if got != nil {
			i := verifIndexOf(bs, got)
			verifrt.Assert(i >= 0, "dispatch target is a member of the pool")
			verifrt.Assert(!inWin[i], "a dispatched-to backend is not inside an unhealthy window (request after request)")
		} else {
			verifrt.Assert(allIn, "503 only if every backend is inside its unhealthy window (request after request)")
		}
	}
}

// verifAt reads a symbolic position of a boolean vector without forking.
func verifAt(v []bool, idx uint64) bool {
	r := false
	for i := range v {
		r = verifrt.Or(r, verifrt.And(idx == uint64(i), v[i]))
	}
	return r
}

// VerifC02History: dispatch after explicit histories of ejections (through the
// real MarkBackendUnhealthy), time passing and requests, against ghost windows.
func VerifC02History(strategy int, k int) {
	lb := verifBareLB(strategy)
	bs := verifPool(lb, 9, 2, false)
	win := int64(verifrt.IntRange("window", 1, 1<<40))
	now := int64(0)
	until := []int64{-1, -1} // ghost: end of the current unhealthy window, -1 = never ejected
	r := verifRequest("10.1.2.3:4711")
	for i := 0; i < k; i++ {
		switch verifrt.Choice("op", 3) {
		case 0:
			j := verifrt.Choice("backend", 2)
			lb.MarkBackendUnhealthy(bs[j], time.Duration(win))
			until[j] = now + win
		case 1:
			dt := int64(verifrt.IntRange("dt", 1, 1<<41))
			verifrt.Advance(time.Duration(dt))
			now += dt
		case 2:
			got := lb.findHealthyBackend(r)
			in0, in1 := until[0] >= 0 && now < until[0], until[1] >= 0 && now < until[1]
			if got == bs[0] {
				verifrt.Assert(!in0, "a request is never dispatched to a backend inside its unhealthy window (after any history)")
			}
			if got == bs[1] {
				verifrt.Assert(!in1, "a request is never dispatched to a backend inside its unhealthy window (after any history)")
			}
			if got == nil {
				done0, done1 := until[0] < 0 || now > until[0], until[1] < 0 || now > until[1]
				verifrt.Assert(!done0 && !done1, "503 after a history only if every backend is inside its unhealthy window")
			}
		}
	}
}
