package loadbalancer

import (
	"net/http"

	"github.com/0xReLogic/Helios/internal/config"
	"github.com/0xReLogic/Helios/internal/verifrt"
)

type verifModelBackend struct {
	name, addr string
	weight     int
}

// VerifC11History: every history of <= k admin operations and requests,
// checked after each step against a list-of-records reference model.
func VerifC11History(k int) {
	lb := verifBareLB(0)
	var model []verifModelBackend
	strategy := "round_robin"
	names := []string{"a", "b", "c"}
	strategies := []string{"round_robin", "least_connections", "weighted_round_robin", "ip_hash", "ip_hash_consistent", "fastest"}
	check := func() {
		infos := lb.ListBackends()
		verifrt.Assert(len(infos) == len(model), "the listed backends are exactly the model's backends (count)")
		if len(infos) == len(model) {
			// same multiset of (name, address, weight): every model entry is matched by a distinct listed entry
			used := make([]bool, len(infos))
			all := true
			for _, m := range model {
				found := false
				for i, in := range infos {
					if !used[i] && in.Name == m.name && in.Weight == m.weight && in.Healthy {
						used[i], found = true, true
						break
					}
				}
				if !found {
					all = false
				}
			}
			verifrt.Assert(all, "the listed backends are exactly the model's backends (names, weights, health)")
		}
		verifrt.Assert(lb.config.LoadBalancer.Strategy == strategy, "the active strategy is the last successfully set one")
	}
	for i := 0; i < k; i++ {
		switch verifrt.Choice("op", 4) {
		case 0: // add
			name := names[verifrt.Choice("name", 2)]
			w := verifrt.IntRange("weight", 0, 5)
			addr := "http://" + name + ":80"
			bad := verifrt.Bool("unparsableAddress")
			if bad {
				addr = "http://[::1"
			}
			err := lb.AddBackend(config.BackendConfig{Name: name, Address: addr, Weight: w})
			verifrt.Assert((err != nil) == bad, "add fails exactly for an unparsable address")
			if err == nil {
				if w < 1 {
					w = 1
				}
				model = append(model, verifModelBackend{name, addr, w})
			}
		case 1: // remove
			name := names[verifrt.Choice("name", 3)]
			dup := 0
			for _, m := range model {
				if m.name == name {
					dup++
				}
			}
			lb.RemoveBackend(name)
			var kept []verifModelBackend
			for _, m := range model {
				if m.name != name {
					kept = append(kept, m)
				}
			}
			model = kept
			for _, in := range lb.ListBackends() {
				verifrt.Assert(in.Name != name, "once remove returns no backend of that name is listed")
			}
			r := verifRequest("10.1.2.3:4711")
			for j := 0; j < 4; j++ {
				if b := lb.findHealthyBackend(r); b != nil {
					verifrt.Assert(b.Name != name, "once remove returns no backend of that name receives new requests")
				}
			}
		case 2: // set strategy
			s := strategies[verifrt.Choice("strategy", len(strategies))]
			err := lb.SetStrategy(s)
			verifrt.Assert((err != nil) == (s == "fastest"), "an unknown strategy is rejected, a known one accepted")
			if err == nil {
				strategy = s
			}
		case 3: // request: served by a listed backend, whenever one exists
			b := lb.findHealthyBackend(verifRequest("10.1.2.3:4711"))
			verifrt.Assert((b != nil) == (len(model) > 0), "a request is served exactly when a backend is configured (all are healthy here)")
			if b != nil {
				found := false
				for _, m := range model {
					if m.name == b.Name {
						found = true
					}
				}
				verifrt.Assert(found, "requests are served only by configured backends")
			}
		}
		check()
	}
}

// VerifC11RemoveAfterTraffic: under every strategy, with two to four backends
// that have been serving one or two clients for a while: remove the backend that
// served a client's last request (and possibly a second backend); from then on no request of either client is served
// by it, and every request is served by a listed backend - whatever per-client
// or per-backend state the strategy keeps.
func VerifC11RemoveAfterTraffic(strategy int) {
	lb := verifBareLB(strategy)
	n := 2 + verifrt.Choice("poolSize", 3) // 2..4 backends
	for i := 0; i < n; i++ {
		lb.AddBackend(config.BackendConfig{Name: verifNames[i], Address: "http://127.0.0.1:" + verifPorts[i], Weight: 1 + i})
	}
	r1 := verifRequest("10.1.2.3:4711")
	r2 := verifRequest("10.9.8.7:4711")
	r2.Header.Set("X-Forwarded-For", "203.0.113.77")
	warm := verifrt.Choice("requestsBefore", 3) + 1
	var last *Backend
	for i := 0; i < warm; i++ {
		if verifrt.Bool("secondClientToo") {
			lb.findHealthyBackend(r2)
		}
		last = lb.findHealthyBackend(r1)
	}
	verifrt.Assert(last != nil, "a configured healthy backend serves")
	gone := []string{last.Name}
	lb.RemoveBackend(last.Name)
	// the pool may shrink by more than one backend before the next request arrives (down to one backend)
	if n >= 3 && verifrt.Bool("removeASecondBackend") {
		for _, in := range lb.ListBackends() {
			gone = append(gone, in.Name)
			lb.RemoveBackend(in.Name)
			break
		}
	}
	for i := 0; i < 4; i++ {
		for _, r := range []*http.Request{r1, r2} {
			b := lb.findHealthyBackend(r)
			verifrt.Assert(b != nil, "requests arriving after a remove are served while a backend is configured")
			for _, g := range gone {
				verifrt.Assert(b == nil || b.Name != g, "once remove returns no backend of that name receives new requests (after real traffic, every strategy)")
			}
			listed := false
			for _, in := range lb.ListBackends() {
				if b != nil && in.Name == b.Name {
					listed = true
				}
			}
			verifrt.Assert(listed, "requests are served only by listed backends")
		}
	}
}

// VerifC11Atomic: two admin operations (or an admin operation and traffic)
// run concurrently; once both have returned the backend set must be what some
// sequential order of the two produces: an add that returned is listed, a
// remove that returned is not.
func VerifC11Atomic(pair int) {
	lb := verifBareLB(0)
	for i := 0; i < 2; i++ {
		lb.strategy.AddBackend(verifBackend(i))
	}
	has := func(name string) bool {
		for _, in := range lb.ListBackends() {
			if in.Name == name {
				return true
			}
		}
		return false
	}
	switch pair {
	case 0: // strategy switch || add
		verifrt.Go(func() { lb.SetStrategy("least_connections") })
		verifrt.Go(func() { lb.AddBackend(config.BackendConfig{Name: "n", Address: "http://n:80"}) })
		verifrt.WaitAll()
		verifrt.Assert(has("n"), "an add that returned is listed, whatever ran concurrently")
		verifrt.Assert(has("b0") && has("b1") && len(lb.ListBackends()) == 3, "a strategy switch keeps exactly the same backends")
	case 1: // strategy switch || remove
		verifrt.Go(func() { lb.SetStrategy("weighted_round_robin") })
		verifrt.Go(func() { lb.RemoveBackend("b0") })
		verifrt.WaitAll()
		verifrt.Assert(!has("b0"), "a remove that returned is not listed, whatever ran concurrently")
		verifrt.Assert(has("b1") && len(lb.ListBackends()) == 1, "a strategy switch keeps exactly the same backends")
	case 2: // add || remove of different names
		verifrt.Go(func() { lb.AddBackend(config.BackendConfig{Name: "n", Address: "http://n:80"}) })
		verifrt.Go(func() { lb.RemoveBackend("b0") })
		verifrt.WaitAll()
		verifrt.Assert(has("n") && !has("b0") && has("b1"), "concurrent add and remove both take effect")
	case 4, 5: // list || remove / add: the listing is the backend set before or after the operation
		for i := 2; i < 4; i++ {
			lb.strategy.AddBackend(verifBackend(i))
		}
		var listed []BackendInfo
		verifrt.Go(func() { listed = lb.ListBackends() })
		if pair == 4 {
			verifrt.Go(func() { lb.RemoveBackend("b1") })
		} else {
			verifrt.Go(func() { lb.AddBackend(config.BackendConfig{Name: "n", Address: "http://n:80"}) })
		}
		verifrt.WaitAll()
		count := map[string]int{}
		for _, in := range listed {
			count[in.Name]++
		}
		for _, n := range []string{"b0", "b2", "b3"} {
			verifrt.Assert(count[n] == 1, "a listing taken during an admin operation shows every untouched backend exactly once")
		}
		if pair == 4 {
			verifrt.Assert(count["b1"] <= 1 && len(listed) == 3+count["b1"], "a listing taken during a remove is the set before or after it")
		} else {
			verifrt.Assert(count["b1"] == 1 && count["n"] <= 1 && len(listed) == 4+count["n"], "a listing taken during an add is the set before or after it")
		}
		return
	case 6, 7: // a name registered twice (the admin API allows it): remove(name) is ONE step for a concurrent listing / request
		for i := 0; i < 2; i++ {
			d := verifBackend(2 + i)
			d.Name = "dup"
			lb.strategy.AddBackend(d)
		}
		var listed []BackendInfo
		var served *Backend
		if pair == 6 {
			verifrt.Go(func() { listed = lb.ListBackends() })
		} else {
			verifrt.Go(func() {
				lb.NextBackend(verifRequest("10.1.2.3:4711"))
				served = lb.NextBackend(verifRequest("10.1.2.3:4711"))
				listed = lb.ListBackends()
			})
		}
		verifrt.Go(func() { lb.RemoveBackend("dup") })
		verifrt.WaitAll()
		dups := 0
		for _, in := range listed {
			if in.Name == "dup" {
				dups++
			}
		}
		verifrt.Assert(dups == 0 || dups == 2, "removing a name that is registered twice is one atomic step: a concurrent listing shows both entries or neither")
		verifrt.Assert(len(listed) == 2+dups, "a listing taken during the remove shows every untouched backend exactly once")
		if pair == 7 && dups == 0 {
			// the listing came after the remove; so did nothing that the same goroutine did later - but `served` came before the listing:
			// nothing to claim about it except that it is a backend that was configured at some point
			verifrt.Assert(served != nil, "a configured healthy backend serves")
		}
		verifrt.Assert(!has("dup"), "a remove that returned is not listed")
		return
	case 3: // strategy switch || strategy switch
		verifrt.Go(func() { lb.SetStrategy("ip_hash") })
		verifrt.Go(func() { lb.SetStrategy("least_connections") })
		verifrt.WaitAll()
		verifrt.Assert(has("b0") && has("b1") && len(lb.ListBackends()) == 2, "concurrent strategy switches keep exactly the same backends")
	}
	b := lb.findHealthyBackend(verifRequest("10.1.2.3:4711"))
	verifrt.Assert(b != nil && has(b.Name), "requests after the change are served by a listed backend")
}
