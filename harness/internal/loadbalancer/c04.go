package loadbalancer

import (
	"context"
	"errors"
	"net/http"
	"net/url"
	"strconv"
	"time"

	"github.com/0xReLogic/Helios/internal/config"
	"github.com/0xReLogic/Helios/internal/metrics"
	"github.com/0xReLogic/Helios/internal/verifrt"
)

var verifProbeErr = errors.New("verif: probe could not connect")

// verifProbeFailure: the ways a probe fails to produce a response, as the probe's
// http.Client reports them: connection refused, and the probe's own timeout
// (health_checks.active.timeout), which wraps context.DeadlineExceeded.
func verifProbeFailure() error {
	switch verifrt.Choice("probeError", 3) {
	case 0:
		return verifProbeErr
	case 1:
		return &url.Error{Op: "Get", URL: "http://127.0.0.1:8081/health", Err: context.DeadlineExceeded}
	}
	return &url.Error{Op: "Get", URL: "http://127.0.0.1:8081/health", Err: verifProbeErr}
}

// VerifC04History drives one backend through every history of <= k events
//
//	0 failed response (5xx)   1 good response   2 probe starts
//	3 in-flight probe completes OK   4 in-flight probe fails   5 time passes
//	6 client request (eligibility + dispatch)   7 admin / metrics read
//	8 (round_robin only) a failed response of ANOTHER backend of the pool, which
//	  lives on the same host under a different port: it says nothing about this one
//
// against ghost state written from the property statement.
func VerifC04History(strategy int, k int) {
	lb := verifBareLB(strategy)
	lb.metricsCollector = metrics.NewMetricsCollector()
	thr := verifrt.IntRange("unhealthy_threshold", 1, 3)
	win := int64(verifrt.IntRange("unhealthy_timeout", 1, 1<<40))
	lb.healthChecks.passiveEnabled = true
	lb.healthChecks.passiveThreshold = thr
	lb.healthChecks.passiveTimeout = time.Duration(win)
	b := verifBackend(0)
	lb.strategy.AddBackend(b)
	lb.metricsCollector.UpdateBackendHealth(b.Name, true)
	r := verifRequest("10.1.2.3:4711")
	events := 8
	var other *Backend
	if strategy == 0 {
		events = 9
		other = verifBackend(1)
		lb.strategy.AddBackend(other)
		lb.metricsCollector.UpdateBackendHealth(other.Name, true)
	}

	now := int64(0)
	ejected := false // ghost: an ejection happened and its window has not been observed to end
	ejectedAt := int64(0)
	failsSince := 0 // failed responses since the last ejection
	row := 0        // failed responses in a row
	probeInFlight := false

	inWindow := func() bool { return ejected && now-ejectedAt < win }

	for i := 0; i < k; i++ {
		ev := verifrt.Choice("event", events)
		switch ev {
		case 8:
			wasHealthy, wasUntil := b.IsHealthy, b.UnhealthyUntil
			lb.recordRequestMetrics(other, 500+verifrt.IntRange("status5xx", 0, 99), verifrt.Now(), r)
			verifrt.Assert(b.IsHealthy == wasHealthy && b.UnhealthyUntil.Equal(wasUntil), "another backend's failed responses do not change this backend's health state")
		case 0:
			preHealthy, preUntil := b.IsHealthy, b.UnhealthyUntil
			lb.recordRequestMetrics(b, 500+verifrt.IntRange("status5xx", 0, 99), verifrt.Now(), r)
			failsSince++
			row++
			fresh := verifrt.Now().Add(time.Duration(win))
			// this response ejected the backend (state changed to "ejected until now+window")
			nowEjected := !b.IsHealthy && b.UnhealthyUntil.Equal(fresh) && (preHealthy || !preUntil.Equal(fresh))
			if nowEjected {
				verifrt.Assert(failsSince >= thr, "passive ejection only after unhealthy_threshold failed responses")
				ejected, ejectedAt, failsSince, row = true, now, 0, 0
			}
			verifrt.Assert(verifrt.Implies(row >= thr, nowEjected || inWindow()), "unhealthy_threshold failed responses in a row leave the backend ejected")
		case 1:
			lb.recordRequestMetrics(b, 200+verifrt.IntRange("statusOK", 0, 299), verifrt.Now(), r)
			row = 0
		case 2:
			// the real probe prologue: skip backends that are not eligible
			if lb.IsBackendHealthy(b) {
				probeInFlight = true
			}
		case 3:
			if !probeInFlight {
				continue
			}
			probeInFlight = false
			wasHealthy := b.IsHealthy
			lb.processHealthCheckResponse(b, &http.Response{StatusCode: http.StatusOK})
			verifrt.Assert(verifrt.Implies(wasHealthy, b.IsHealthy), "a successful probe never ejects")
		case 4:
			if !probeInFlight {
				continue
			}
			probeInFlight = false
			if verifrt.Bool("probeNon200") {
				lb.processHealthCheckResponse(b, &http.Response{StatusCode: 503})
			} else {
				lb.handleHealthCheckFailure(b, verifProbeFailure())
			}
			verifrt.Assert(!b.IsHealthy && b.UnhealthyUntil.Equal(verifrt.Now().Add(time.Duration(win))), "a failed probe ejects the backend for the configured window")
			// (the passive failure tally is not reset by a probe ejection: those failed responses did occur)
			ejected, ejectedAt, row = true, now, 0
		case 5:
			dt := int64(verifrt.IntRange("dt", 1, 1<<41))
			verifrt.Advance(time.Duration(dt))
			now += dt
		case 6:
			got := lb.findHealthyBackend(r)
			verifrt.Assert(verifrt.Implies(inWindow(), got != b), "an ejected backend receives no traffic during its unhealthy window")
		case 7:
			in := inWindow()
			infos := lb.ListBackends()
			verifrt.Assert(verifrt.Implies(in, !infos[0].Healthy), "admin API never reports an ejected backend as healthy")
			m := lb.metricsCollector.GetMetrics()
			verifrt.Assert(verifrt.Implies(in, !m.BackendMetrics[b.Name].IsHealthy), "metrics endpoint never reports an ejected backend as healthy")
		}
	}
}

// VerifC04Recovery: a backend ejected for a window becomes eligible and
// actually receives traffic again once the window has elapsed, without any
// active probing, under every strategy.
func VerifC04Recovery(strategy int, n int) {
	lb := verifBareLB(strategy)
	win := int64(verifrt.IntRange("unhealthy_timeout", 1, 1<<40))
	bs := make([]*Backend, n)
	for i := range bs {
		bs[i] = verifBackend(i)
		lb.strategy.AddBackend(bs[i])
	}
	if strategy == 1 && n > 1 {
		bs[1].ActiveConnections = 5 // the recovered backend has the strictly minimal gauge
	}
	if s, ok := lb.strategy.(*RoundRobinStrategy); ok {
		verifSetRotation(&s.current)
	}
	lb.MarkBackendUnhealthy(bs[0], time.Duration(win))
	verifrt.Advance(time.Duration(win + 1 + int64(verifrt.IntRange("extra", 0, 1<<40))))
	served := false
	r := verifRequest("10.1.2.3:4711")
	for i := 0; i < n; i++ {
		if lb.findHealthyBackend(r) == bs[0] {
			served = true
		}
	}
	verifrt.Assert(served, "after the unhealthy window the backend receives traffic again (no active checks)")
}

// VerifC04ConcurrentFailures: two failed responses are recorded concurrently
// while the tally is one short of the threshold (both see the threshold
// reached); once the window has elapsed, unhealthy_threshold failed responses
// in a row must eject the backend again - the tally must not be left in debt.
func VerifC04ConcurrentFailures() {
	lb := verifBareLB(0)
	lb.metricsCollector = metrics.NewMetricsCollector()
	lb.healthChecks.passiveEnabled = true
	lb.healthChecks.passiveThreshold = 2
	lb.healthChecks.passiveTimeout = 10 * time.Second
	b := verifBackend(0)
	lb.strategy.AddBackend(b)
	r := verifRequest("10.1.2.3:4711")
	lb.recordRequestMetrics(b, 500, verifrt.Now(), r)
	verifrt.Go(func() { lb.recordRequestMetrics(b, 502, verifrt.Now(), r) })
	verifrt.Go(func() { lb.recordRequestMetrics(b, 503, verifrt.Now(), r) })
	verifrt.WaitAll()
	verifrt.Assert(!lb.IsBackendHealthy(b), "the threshold was reached: the backend is ejected")
	verifrt.Advance(11 * time.Second)
	verifrt.Assert(lb.IsBackendHealthy(b), "the backend is eligible again after its window")
	lb.recordRequestMetrics(b, 500, verifrt.Now(), r)
	lb.recordRequestMetrics(b, 500, verifrt.Now(), r)
	verifrt.Assert(!lb.IsBackendHealthy(b), "unhealthy_threshold failed responses in a row eject the backend (also after concurrent failures)")
}

// VerifC04Config: the health checker as the balancer builds it from the
// configuration (real createHealthChecker), for every on/off combination of
// active and passive checks, any threshold 1..3 and any unhealthy_timeout
// 1..3600 s: a failed active probe ejects the backend for exactly the
// configured window, unhealthy_threshold failed responses in a row do so iff
// passive checks are enabled, and the backend is eligible again afterwards.
func VerifC04Config(strategy int) {
	cfg := &config.Config{}
	hc := &cfg.HealthChecks
	hc.Active.Enabled = verifrt.Bool("active.enabled")
	hc.Active.Interval, hc.Active.Timeout, hc.Active.Path = 10, 5, "/health"
	hc.Passive.Enabled = verifrt.Bool("passive.enabled")
	hc.Passive.UnhealthyThreshold = verifrt.IntRange("unhealthy_threshold", 1, 3)
	hc.Passive.UnhealthyTimeout = verifrt.IntRange("unhealthy_timeout", 1, 3600)
	window := time.Duration(hc.Passive.UnhealthyTimeout) * time.Second
	lb := verifBareLB(strategy)
	lb.healthChecks = createHealthChecker(cfg)
	lb.metricsCollector = metrics.NewMetricsCollector()
	b := verifBackend(0)
	lb.strategy.AddBackend(b)
	r := verifRequest("10.1.2.3:4711")
	ejected := false
	if verifrt.Bool("probeFails") {
		verifrt.Assume(hc.Active.Enabled)
		lb.handleHealthCheckFailure(b, verifProbeErr)
		ejected = true
	} else {
		for i := 0; i < 3; i++ {
			if i < hc.Passive.UnhealthyThreshold {
				lb.recordRequestMetrics(b, 502, verifrt.Now(), r)
			}
		}
		ejected = hc.Passive.Enabled
	}
	verifrt.Assert(lb.IsBackendHealthy(b) == !ejected, "a failed probe ejects; threshold failed responses eject exactly when passive checks are enabled")
	if !ejected {
		return
	}
	verifrt.Advance(window - time.Second)
	verifrt.Assert(lb.findHealthyBackend(r) == nil, "an ejected backend receives no traffic for the configured unhealthy window (whatever the on/off combination)")
	verifrt.Advance(2 * time.Second)
	verifrt.Assert(lb.findHealthyBackend(r) == b, "after the configured window the backend receives traffic again")
}

// VerifC04ManyBackends: the metrics collector has seen n backend names (a large
// pool, or a small one churned through the admin API): an ejection is still
// reported - the metrics endpoint never shows an ejected backend as healthy,
// however many backends it knows.
func VerifC04ManyBackends(n int) {
	lb := verifBareLB(0)
	lb.metricsCollector = metrics.NewMetricsCollector()
	b := verifBackend(0)
	lb.strategy.AddBackend(b)
	lb.metricsCollector.UpdateBackendHealth(b.Name, true)
	for i := 0; i < n; i++ {
		name := "churn-" + strconv.Itoa(i)
		lb.metricsCollector.UpdateBackendHealth(name, true)
		lb.metricsCollector.RecordBackendRequest(name, true, time.Millisecond)
	}
	lb.MarkBackendUnhealthy(b, time.Hour)
	m := lb.metricsCollector.GetMetrics()
	verifrt.Assert(m.BackendMetrics[b.Name] != nil && !m.BackendMetrics[b.Name].IsHealthy, "the metrics endpoint never reports an ejected backend as healthy, however many backends it has seen")
	verifrt.Advance(2 * time.Hour)
	verifrt.Assert(lb.IsBackendHealthy(b), "the backend is eligible again after its window")
	m = lb.metricsCollector.GetMetrics()
	verifrt.Assert(m.BackendMetrics[b.Name].IsHealthy, "and is reported healthy again")
}

// VerifC04ReAdd: a backend is removed through the admin API after some failed
// responses and a backend of the same name is added again (a redeploy at a new
// address): it is a new backend, and is ejected only after unhealthy_threshold
// failed responses of its own.
func VerifC04ReAdd() {
	lb := verifBareLB(0)
	lb.metricsCollector = metrics.NewMetricsCollector()
	thr := verifrt.IntRange("unhealthy_threshold", 2, 3)
	lb.healthChecks.passiveEnabled = true
	lb.healthChecks.passiveThreshold = thr
	lb.healthChecks.passiveTimeout = time.Minute
	lb.AddBackend(config.BackendConfig{Name: "b1", Address: "http://127.0.0.1:8081"})
	lb.AddBackend(config.BackendConfig{Name: "b2", Address: "http://127.0.0.1:8082"})
	r := verifRequest("10.1.2.3:4711")
	old := lb.strategy.GetBackends()[0]
	before := verifrt.IntRange("failedResponsesBeforeTheRemove", 0, thr-1)
	for i := 0; i < before; i++ {
		lb.recordRequestMetrics(old, 500, verifrt.Now(), r)
	}
	verifrt.Assert(old.IsHealthy, "fewer than unhealthy_threshold failed responses do not eject")
	lb.RemoveBackend("b1")
	lb.AddBackend(config.BackendConfig{Name: "b1", Address: "http://127.0.0.1:9091"})
	var fresh *Backend
	for _, b := range lb.strategy.GetBackends() {
		if b.Name == "b1" {
			fresh = b
		}
	}
	verifrt.Assert(fresh != nil && fresh != old, "the re-added backend is a new backend")
	after := verifrt.IntRange("failedResponsesOfTheNewBackend", 1, thr)
	for i := 0; i < after; i++ {
		lb.recordRequestMetrics(fresh, 500, verifrt.Now(), r)
	}
	verifrt.Assert(fresh.IsHealthy == (after < thr), "a backend added under a name that was used before is ejected after exactly unhealthy_threshold failed responses of its own")
}
