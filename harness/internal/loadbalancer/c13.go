package loadbalancer

import (
	"context"
	"net/http"
	"strings"
	"time"

	"github.com/0xReLogic/Helios/internal/config"
	"github.com/0xReLogic/Helios/internal/metrics"
	"github.com/0xReLogic/Helios/internal/ratelimiter"
	"github.com/0xReLogic/Helios/internal/verifrt"
)

// verifClientMayLeave: requests may carry a context that is already cancelled (client disconnected).
var verifClientMayLeave = false

// verifBreakerExtraSuccess: success_threshold = 1 + this (1 makes the half-open
// budget smaller than the threshold, so sequential requests reach the
// "too many requests" rejection).
var verifBreakerExtraSuccess = 0

const (
	verifFeatBreaker      = 1
	verifFeatLimiter      = 2
	verifFeatPassive      = 4
	verifFeatInterim      = 8  // scripted backends may send an interim 103 before the final status
	verifFeatClientLeaves = 16 // a request may carry an already cancelled context (the client disconnected)
)

// verifFullLB builds a balancer with n scripted backends and the selected features.
func verifFullLB(strategy, n, features int) (*LoadBalancer, []*Backend) {
	lb := verifBareLB(strategy)
	lb.metricsCollector = metrics.NewMetricsCollector()
	verifNoInterim = features&verifFeatInterim == 0
	for k := range verifProxyHits {
		delete(verifProxyHits, k)
	}
	bs := make([]*Backend, n)
	for i := range bs {
		bs[i] = verifBackend(i)
		bs[i].ReverseProxy = verifProxyFor(bs[i].Name)
		lb.strategy.AddBackend(bs[i])
		lb.metricsCollector.UpdateBackendHealth(bs[i].Name, true)
	}
	if features&verifFeatLimiter != 0 {
		lb.rateLimiter = ratelimiter.NewTokenBucketRateLimiter(verifrt.IntRange("max_tokens", 1, 2), time.Second)
	}
	if features&verifFeatBreaker != 0 {
		cfg := &config.Config{}
		cfg.CircuitBreaker.Enabled = true
		cfg.CircuitBreaker.FailureThreshold = verifrt.IntRange("failure_threshold", 1, 2)
		cfg.CircuitBreaker.SuccessThreshold = 1 + verifBreakerExtraSuccess
		cfg.CircuitBreaker.MaxRequests = 1
		cfg.CircuitBreaker.IntervalSeconds = 60
		cfg.CircuitBreaker.TimeoutSeconds = 30
		lb.setupCircuitBreaker(cfg)
	}
	if features&verifFeatPassive != 0 {
		lb.healthChecks.passiveEnabled = true
		lb.healthChecks.passiveThreshold = verifrt.IntRange("unhealthy_threshold", 1, 2)
		lb.healthChecks.passiveTimeout = 30 * time.Second
	}
	return lb, bs
}

// verifBodyRecorder also keeps the (small, concrete) body text.
type verifBodyRecorder struct {
	*verifRecorder
	body []byte
}

func (r *verifBodyRecorder) Write(b []byte) (int, error) {
	if len(r.body) < 64 {
		r.body = append(r.body, b...)
	}
	return r.verifRecorder.Write(b)
}

// verifServe runs one request the way net/http does: a handler panic is
// recovered by the server (silently for ErrAbortHandler).
func verifServe(lb *LoadBalancer, rec http.ResponseWriter, fin func(), r *http.Request) (aborted bool, crashed bool) {
	defer func() {
		if x := recover(); x != nil {
			if x == http.ErrAbortHandler {
				aborted = true
			} else {
				crashed = true
			}
		}
	}()
	lb.ServeHTTP(rec, verifServerCtx(r))
	fin()
	return
}

// VerifC13Accounting: after every request of every sequence of <= k requests
// (any backend behaviour incl. abort, rate limiting, breaker rejection, no
// healthy backend) the published numbers add up.
func VerifC13Accounting(strategy, features, k, arbHealth int) {
	verifClientMayLeave = features&verifFeatClientLeaves != 0
	defer func() { verifClientMayLeave = false }()
	verifBreakerExtraSuccess = 0
	if features&verifFeatBreaker != 0 && arbHealth == 0 {
		verifBreakerExtraSuccess = verifrt.Choice("success_threshold_minus_1", 2)
	}
	defer func() { verifBreakerExtraSuccess = 0 }()
	lb, bs := verifFullLB(strategy, 2, features)
	for _, b := range bs {
		if arbHealth != 0 {
			verifArbHealth(b)
		}
	}
	sawAbort := false
	okSeen, failedSeen, limitedSeen := 0, 0, 0
	for i := 0; i < k; i++ {
		if i > 0 && verifrt.Bool("timePasses") {
			verifrt.Advance(time.Duration(verifrt.IntRange("dt", 1, 1<<36)))
		}
		rec := &verifBodyRecorder{verifRecorder: verifNewRecorder()}
		hitsBefore := verifProxyHits[bs[0].Name] + verifProxyHits[bs[1].Name]
		req := verifRequest("10.1.2.3:4711")
		if verifClientMayLeave && verifrt.Bool("clientHasGoneAway") {
			// the client disconnected: its request context is cancelled while the exchange is still accounted for
			ctx, cancel := context.WithCancel(context.Background())
			cancel()
			req = req.WithContext(ctx)
		}
		aborted, crashed := verifServe(lb, rec, rec.finish, req)
		verifrt.Assert(!crashed, "no panic other than the re-raised abort")
		if aborted {
			sawAbort = true
		}
		m := lb.metricsCollector.GetMetrics()
		verifrt.Assert(m.TotalRequests == uint64(i+1), "total_requests equals the number of requests that reached the balancer")
		if rec.wroteHeader && !aborted {
			hitsNow := verifProxyHits[bs[0].Name] + verifProxyHits[bs[1].Name]
			dispatched := hitsNow > hitsBefore
			switch {
			case dispatched && rec.status < 500:
				okSeen++
			case dispatched:
				failedSeen++
			case rec.status == http.StatusTooManyRequests && strings.HasPrefix(string(rec.body), "Rate limit"):
				limitedSeen++
			default: // answered locally with an error (breaker rejection, no healthy backend)
				failedSeen++
			}
			verifrt.Assert(verifrt.Implies(!sawAbort, m.SuccessfulRequests == uint64(okSeen) && m.FailedRequests == uint64(failedSeen) && m.RateLimitedRequests == uint64(limitedSeen)), "requests are classified by their outcome: proxied <500 successful, proxied >=500 or locally refused failed, limiter 429 rate-limited")
		}
		for _, b := range bs {
			var perBackend uint64
			var mirror int32
			if bm := m.BackendMetrics[b.Name]; bm != nil {
				perBackend, mirror = bm.TotalRequests, bm.ActiveConnections
			}
			verifrt.Assert(perBackend == uint64(verifProxyHits[b.Name]), "per-backend total equals the number of requests the backend was actually sent")
			verifrt.Assert(b.ActiveConnections == 0, "active-connection gauge returns to zero when idle")
			verifrt.Assert(mirror == 0, "published active-connection gauge returns to zero when idle")
		}
	}
}
