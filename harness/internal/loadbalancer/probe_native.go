package loadbalancer

import (
	"net/http"
	"net/http/httptest"
	"strings"
	"sync/atomic"
)

var verifProbeServer *httptest.Server

// verifProbeTarget: natively the REAL performHealthCheck dials a local test
// server whose /health handler does what verifClientDo does under the
// executor: count the probe, note whether Stop had already returned, fail it.
func verifProbeTarget() string {
	if verifProbeServer == nil {
		verifProbeServer = httptest.NewServer(http.HandlerFunc(func(w http.ResponseWriter, r *http.Request) {
			atomic.AddInt32(&verifProbesSent, 1)
			if atomic.LoadInt32(&verifStopReturned) == 1 {
				atomic.StoreInt32(&verifProbeAfterStop, 1)
			}
			switch atomic.LoadInt32(&verifProbeMode) {
			case 1: // hung backend: holds the probe until the client gives up
				<-r.Context().Done()
				return
			case 2:
				w.WriteHeader(http.StatusOK)
				return
			}
			w.WriteHeader(http.StatusServiceUnavailable)
		}))
	}
	return strings.TrimPrefix(verifProbeServer.URL, "http://")
}
