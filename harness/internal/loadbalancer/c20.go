package loadbalancer

import (
	"github.com/0xReLogic/Helios/internal/config"
	"net"
	"net/http"
	"time"

	"github.com/0xReLogic/Helios/internal/verifrt"
)

// verifConn is a stub connection with a closed flag and a ghost holder.
type verifConn struct {
	id     int
	closed bool
	held   bool // some caller currently owns it (got it from Get or created it)
	idleAt int64
}

func (c *verifConn) Read([]byte) (int, error)    { return 0, nil }
func (c *verifConn) Write(b []byte) (int, error) { return len(b), nil }

// Close is a system call on a real connection: a scheduling point.
func (c *verifConn) Close() error                     { verifrt.Yield(); c.closed = true; return nil }
func (c *verifConn) LocalAddr() net.Addr              { return nil }
func (c *verifConn) RemoteAddr() net.Addr             { return nil }
func (c *verifConn) SetDeadline(time.Time) error      { return nil }
func (c *verifConn) SetReadDeadline(time.Time) error  { return nil }
func (c *verifConn) SetWriteDeadline(time.Time) error { return nil }

// VerifC20Pool: every history of <= k pool operations over
// {put, get, close, time passes, cleanup, shutdown} on 1-2 backends.
func VerifC20Pool(k int) {
	maxIdle := verifrt.IntRange("max_idle", 0, 3)
	idleTimeout := int64(verifrt.IntRange("idle_timeout", 1, 1<<40))
	p := &WebSocketPool{pools: make(map[string]*connPool), maxIdle: maxIdle, maxActive: 100, idleTimeout: time.Duration(idleTimeout)}
	backends := []string{"x", "y"}
	var conns []*verifConn
	var held []*verifConn // connections owned by callers
	now := int64(0)
	for i := 0; i < k; i++ {
		switch verifrt.Choice("op", 6) {
		case 0: // put a fresh connection, or one the caller holds
			b := backends[verifrt.Choice("backend", 2)]
			var c *verifConn
			if len(held) > 0 && verifrt.Bool("putHeld") {
				c = held[len(held)-1]
				held = held[:len(held)-1]
			} else {
				c = &verifConn{id: len(conns)}
				conns = append(conns, c)
			}
			c.held = false
			c.idleAt = now
			kept := p.Put(b, c)
			verifrt.Assert(kept != c.closed, "Put either keeps the connection idle or closes it")
		case 1: // get
			b := backends[verifrt.Choice("backend", 2)]
			got := p.Get(b)
			if got != nil {
				c := got.(*verifConn)
				verifrt.Assert(!c.held, "the pool never hands one connection to two holders")
				verifrt.Assert(!c.closed, "the pool never hands out a closed connection")
				verifrt.Assert(now-c.idleAt <= idleTimeout, "the pool never returns a connection idle longer than idle_timeout")
				c.held = true
				held = append(held, c)
			}
		case 2: // caller closes a connection it holds
			if len(held) > 0 {
				c := held[len(held)-1]
				held = held[:len(held)-1]
				c.held = false
				p.Close(backends[verifrt.Choice("backend", 2)], c)
				verifrt.Assert(c.closed, "Close closes the connection")
			}
		case 3:
			dt := int64(verifrt.IntRange("dt", 1, 1<<41))
			verifrt.Advance(time.Duration(dt))
			now += dt
		case 4:
			p.cleanup()
		case 5:
			p.Shutdown()
			for _, c := range conns {
				verifrt.Assert(c.held || c.closed, "after Shutdown every connection the pool held is closed")
			}
			verifrt.Assert(len(p.pools) == 0, "after Shutdown the pool is empty")
		}
		for _, b := range backends {
			idle, _ := p.Stats(b)
			verifrt.Assert(idle <= maxIdle, "never more than max_idle idle connections per backend")
		}
	}
}

// verifHijackConn: connection-level writer used to check Hijack pass-through.
type verifHijackWriter struct {
	*verifRecorder
}

// VerifC20Hijack: Hijack on the balancer's writer reaches the connection
// exactly once and returns its results (plugin wrappers: see the plugins harness).
func VerifC20Hijack() {
	rec := &verifHijackRecorder{verifNewRecorder()}
	rw := &responseWriter{ResponseWriter: rec, statusCode: http.StatusOK}
	var w http.ResponseWriter = rw
	h, ok := w.(http.Hijacker)
	verifrt.Assert(ok, "the balancer's writer is a Hijacker")
	_, _, err := h.Hijack()
	verifrt.Assert(err == nil && rec.hijacks == 1, "Hijack reaches the connection exactly once")
	plain := &responseWriter{ResponseWriter: verifNewRecorder(), statusCode: http.StatusOK}
	_, _, err = plain.Hijack()
	verifrt.Assert(err != nil, "Hijack on a connection that cannot be hijacked reports an error instead of panicking")
}

// VerifC20Concurrent (C20c): two pool operations run concurrently; afterwards
// the pool must account for every connection it accepted: a connection that Put
// kept is either handed out by Get, or counted idle, or closed by Shutdown.
func VerifC20Concurrent(pair int) {
	p := NewWebSocketPool(2, 10, time.Minute) // real constructor
	a := &verifConn{id: 0}
	p.Put("x", a)
	b := &verifConn{id: 1}
	var kept bool
	switch pair {
	case 0: // cleanup of a stale connection racing a Put on the same backend
		verifrt.Advance(2 * time.Minute)
		verifrt.Go(func() { p.cleanup() })
		verifrt.Go(func() { kept = p.Put("x", b) })
	case 1: // Get racing Get: one idle connection must not be handed out twice
		var g1, g2 net.Conn
		verifrt.Go(func() { g1 = p.Get("x") })
		verifrt.Go(func() { g2 = p.Get("x") })
		verifrt.WaitAll()
		verifrt.Assert(g1 == nil || g2 == nil, "one idle connection is never handed to two holders")
		verifrt.Assert(g1 != nil || g2 != nil, "an idle connection within idle_timeout is handed out")
		return
	case 2: // Put racing Shutdown
		verifrt.Go(func() { kept = p.Put("x", b) })
		verifrt.Go(func() { p.Shutdown() })
	case 4: // two first Puts of one new backend at the same time: both accepted connections stay accounted for
		c := &verifConn{id: 2}
		var kept2 bool
		verifrt.Go(func() { kept = p.Put("y", b) })
		verifrt.Go(func() { kept2 = p.Put("y", c) })
		verifrt.WaitAll()
		idle, _ := p.Stats("y")
		n := 0
		if kept {
			n++
		}
		if kept2 {
			n++
		}
		verifrt.Assert(idle == n, "every connection a concurrent first Put accepted is accounted as idle")
		p.Shutdown()
		verifrt.Assert((!kept || b.closed) && (!kept2 || c.closed), "Shutdown closes every connection the pool accepted (concurrent first Puts)")
		return
	case 3: // the first Put of a backend the pool has not seen yet, racing Shutdown
		verifrt.Go(func() { kept = p.Put("y", b) })
		verifrt.Go(func() { p.Shutdown() })
	case 7: // a request finds only stale connections (two of them) while another request returns a fresh one
		a2 := &verifConn{id: 2}
		p.Put("x", a2)
		verifrt.Advance(2 * time.Minute)
		var g net.Conn
		verifrt.Go(func() { g = p.Get("x") })
		verifrt.Go(func() { kept = p.Put("x", b) })
		verifrt.WaitAll()
		// (at the pinned commit a Put that comes first finds max_idle connections parked and declines; a pool
		// that evicts the stale ones instead and hands the fresh connection to the Get is just as good)
		verifrt.Assert(g == nil || (g == net.Conn(b) && !b.closed), "a stale connection is never handed out, and a connection that is handed out is open")
		if g == nil {
			verifrt.Assert(a.closed && a2.closed, "the stale connections a Get discarded are closed")
			idle, _ := p.Stats("x")
			verifrt.Assert(kept != b.closed, "Put either keeps the connection idle or closes it")
			if kept {
				verifrt.Assert(idle == 1, "the fresh connection returned meanwhile is parked, open and counted")
				verifrt.Assert(p.Get("x") == net.Conn(b) && !b.closed, "the parked connection is handed out, still open")
			}
		}
		p.Shutdown()
		verifrt.Assert(a.closed && a2.closed, "Shutdown closes everything the pool still holds")
		return
	case 5: // the janitor finds the backend's last connection stale (nothing checked out) while the pool shuts down
		verifrt.Advance(2 * time.Minute)
		verifrt.Go(func() { p.cleanup() })
		verifrt.Go(func() { p.Shutdown() })
		verifrt.WaitAll() // (a lock-order inversion between the two shows up as a deadlock here)
		verifrt.Assert(a.closed, "a stale connection is closed by the janitor or by the shutdown, whichever gets there")
		return
	case 6: // ... while a request asks for a connection and the admin API reads the statistics
		verifrt.Advance(2 * time.Minute)
		var g net.Conn
		verifrt.Go(func() { p.cleanup() })
		verifrt.Go(func() { g = p.Get("x"); p.Stats("x") })
		verifrt.WaitAll()
		verifrt.Assert(g == nil && a.closed, "a connection idle longer than idle_timeout is closed and never handed out")
		kept = p.Put("x", b)
		idle, _ := p.Stats("x")
		verifrt.Assert(kept && idle == 1, "after the janitor emptied a backend's pool a returned connection is parked again")
		p.Shutdown()
		verifrt.Assert(b.closed, "Shutdown closes every connection the pool accepted")
		return
	}
	verifrt.WaitAll()
	if pair == 0 {
		verifrt.Assert(a.closed, "a connection idle longer than idle_timeout is closed by cleanup")
	}
	idle, _ := p.Stats("x")
	if kept && pair == 0 {
		verifrt.Assert(idle == 1, "a connection that Put accepted is accounted as idle")
	}
	if pair == 3 && kept && !b.closed {
		// accepted after the shutdown: then it must still be reachable
		got := p.Get("y")
		verifrt.Assert(got == net.Conn(b), "a connection that Put accepted is either closed by the shutdown or still handed out afterwards")
		return
	}
	p.Shutdown()
	verifrt.Assert(!kept || b.closed, "Shutdown closes every connection the pool accepted")
}

// VerifC20Wiring: the pool as the balancer builds it from the configuration
// (real validation, real setupWebSocketPool): for every accepted websocket_pool
// section (max_idle 1..3, max_active 0 = unlimited..4, idle_timeout 1..600 s)
// at most the configured max_idle connections are kept idle per backend, a
// connection is handed out again within the configured idle_timeout and never
// after it.
func VerifC20Wiring() {
	cfg := &config.Config{}
	cfg.Server.Port = 8080
	cfg.Backends = []config.BackendConfig{{Name: "b0", Address: "http://b0:80"}}
	p := &cfg.LoadBalancer.WebSocketPool
	p.Enabled = true
	p.MaxIdle = verifrt.IntRange("max_idle", 1, 3)
	p.MaxActive = verifrt.IntRange("max_active", 0, 4)
	p.IdleTimeoutSeconds = verifrt.IntRange("idle_timeout_seconds", 1, 600)
	verifrt.Assume(cfg.Validate() == nil)
	lb := verifBareLB(0)
	lb.setupWebSocketPool(cfg)
	verifrt.Settle()
	pool := lb.wsPool
	verifrt.Assert(pool != nil, "an enabled pool is built")
	kept := 0
	conns := make([]*verifConn, 4)
	for i := range conns {
		conns[i] = &verifConn{id: i}
		if pool.Put("b0", conns[i]) {
			kept++
		} else {
			verifrt.Assert(conns[i].closed, "a connection the pool does not keep is closed")
		}
	}
	idle, _ := pool.Stats("b0")
	want := p.MaxIdle
	if want > 4 {
		want = 4
	}
	verifrt.Assert(kept == want && idle == want, "exactly the configured max_idle connections are kept idle per backend")
	early := verifrt.Bool("withinIdleTimeout")
	if early {
		verifrt.Advance(time.Duration(p.IdleTimeoutSeconds)*time.Second - time.Nanosecond)
		verifrt.Assert(pool.Get("b0") != nil, "an idle connection younger than the configured idle_timeout is handed out")
	} else {
		verifrt.Advance(time.Duration(p.IdleTimeoutSeconds)*time.Second + time.Nanosecond)
		verifrt.Assert(pool.Get("b0") == nil, "a connection idle longer than the configured idle_timeout is never handed out")
	}
	lb.wsPool.Shutdown()
}
