package loadbalancer

import (
	"net/http"
	"time"

	"github.com/0xReLogic/Helios/internal/circuitbreaker"
	"github.com/0xReLogic/Helios/internal/config"
	"github.com/0xReLogic/Helios/internal/verifrt"
)

// VerifC08Notify: the breaker is built by the real setupCircuitBreaker (so
// the balancer's own OnStateChange callback is installed) and driven through
// every transition by request sequences of <= k requests (5xx, refused,
// aborted, ok, time passing). Every request must return: the executor's
// built-in deadlock detection is the assertion.
func VerifC08Notify(k int) {
	lb, _ := verifFullLB(0, 1, verifFeatBreaker)
	returned := 0
	for i := 0; i < k; i++ {
		if i > 0 && verifrt.Bool("timePasses") {
			verifrt.Advance(time.Duration(verifrt.IntRange("dt", 1, 1<<36)))
		}
		rec := verifNewRecorder()
		_, crashed := verifServe(lb, rec, rec.finish, verifRequest("10.1.2.3:4711"))
		verifrt.Assert(!crashed, "no panic other than the re-raised abort")
		returned++
	}
	verifrt.Assert(returned == k, "every request returns (state-change notifications never block request processing)")
	// requests would succeed again: after the timeout (30s) a bounded number of successful requests closes the breaker
	verifrt.Advance(2 * time.Minute)
	verifForceOK = true
	last := 0
	for i := 0; i < 3; i++ {
		rec := verifNewRecorder()
		verifServe(lb, rec, rec.finish, verifRequest("10.1.2.3:4711"))
		last = rec.status
	}
	verifForceOK = false
	verifrt.Assert(lb.circuitBreaker.State() == circuitbreaker.StateClosed && last == http.StatusOK, "after timeout plus a bounded number of successful requests the breaker is closed and requests are admitted (system level)")
	st := lb.circuitBreaker.State()
	verifrt.Assert(st == circuitbreaker.StateClosed || st == circuitbreaker.StateOpen || st == circuitbreaker.StateHalfOpen, "breaker state is readable after the sequence")
	_ = http.StatusOK
}

// VerifC08Config: for EVERY breaker section that the real configuration
// validation accepts (thresholds 1..3, max_requests 0 = unset .. 3 and values around 2^32), the
// breaker as the balancer builds it (real setupCircuitBreaker, with its own
// defaulting) trips after failure_threshold failures and, once requests succeed
// again, is closed after the timeout plus a bounded number of successes - it
// never locks traffic out.
func VerifC08Config() {
	cfg := &config.Config{}
	c := &cfg.CircuitBreaker
	c.Enabled = true
	c.FailureThreshold = verifrt.IntRange("failure_threshold", 1, 2)
	c.SuccessThreshold = verifrt.IntRange("success_threshold", 1, 3)
	// unset, small, and values just below / at / above the 32-bit range (the breaker counts in uint32)
	c.MaxRequests = []int{0, 1, 2, 3, 1<<32 - 1, 1 << 32, 1<<32 + 1}[verifrt.Choice("max_requests", 7)]
	c.IntervalSeconds, c.TimeoutSeconds = 60, 30
	verifrt.Assume(config.VerifBreakerAccepted(c.FailureThreshold, c.SuccessThreshold, c.MaxRequests))
	lb, _ := verifFullLB(0, 1, 0)
	lb.setupCircuitBreaker(cfg)
	b := lb.circuitBreaker
	for i := 0; i < 2; i++ {
		if i < c.FailureThreshold {
			b.Execute(func() error { return verifProbeErr })
		}
	}
	verifrt.Assert(b.State() == circuitbreaker.StateOpen, "failure_threshold failures open the breaker the balancer built")
	verifrt.Advance(31 * time.Second)
	admitted := false
	for i := 0; i < 8; i++ {
		if i < 2*c.SuccessThreshold+4 {
			admitted = false
			b.Execute(func() error { admitted = true; return nil })
		}
	}
	verifrt.Assert(b.State() == circuitbreaker.StateClosed && admitted, "every accepted breaker configuration recovers: closed and admitting after the timeout plus a bounded number of successes")
}
