package loadbalancer

import (
	"net/http"
	"time"

	"github.com/0xReLogic/Helios/internal/circuitbreaker"
	"github.com/0xReLogic/Helios/internal/verifrt"
)

// VerifC08Notify: the breaker is built by the real setupCircuitBreaker (so
// the balancer's own OnStateChange callback is installed) and driven through
// every transition by request sequences of <= k requests (5xx, refused,
// aborted, ok, time passing). Every request must return: the executor's
// built-in deadlock detection is the assertion.
func VerifC08Notify(k int) {
	lb, _ := verifFullLB(0, 1, verifFeatBreaker)
	returned := 0
	for i := 0; i < k; i++ {
		if i > 0 && verifrt.Bool("timePasses") {
			verifrt.Advance(time.Duration(verifrt.IntRange("dt", 1, 1<<36)))
		}
		rec := verifNewRecorder()
		_, crashed := verifServe(lb, rec, rec.finish, verifRequest("10.1.2.3:4711"))
		verifrt.Assert(!crashed, "no panic other than the re-raised abort")
		returned++
	}
	verifrt.Assert(returned == k, "every request returns (state-change notifications never block request processing)")
	// requests would succeed again: after the timeout (30s) a bounded number of successful requests closes the breaker
	verifrt.Advance(2 * time.Minute)
	verifForceOK = true
	last := 0
	for i := 0; i < 3; i++ {
		rec := verifNewRecorder()
		verifServe(lb, rec, rec.finish, verifRequest("10.1.2.3:4711"))
		last = rec.status
	}
	verifForceOK = false
	verifrt.Assert(lb.circuitBreaker.State() == circuitbreaker.StateClosed && last == http.StatusOK, "after timeout plus a bounded number of successful requests the breaker is closed and requests are admitted (system level)")
	st := lb.circuitBreaker.State()
	verifrt.Assert(st == circuitbreaker.StateClosed || st == circuitbreaker.StateOpen || st == circuitbreaker.StateHalfOpen, "breaker state is readable after the sequence")
	_ = http.StatusOK
}
