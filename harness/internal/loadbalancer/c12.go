package loadbalancer

import (
	"net/http"
	"sync/atomic"
	"time"

	"github.com/0xReLogic/Helios/internal/circuitbreaker"
	"github.com/0xReLogic/Helios/internal/config"
	"github.com/0xReLogic/Helios/internal/metrics"
	"github.com/0xReLogic/Helios/internal/ratelimiter"
	"github.com/0xReLogic/Helios/internal/verifrt"
)

var verifPairNames = []string{
	0:  "NextBackend[weighted_round_robin] || MarkBackendUnhealthy",
	1:  "NextBackend[ip_hash] || MarkBackendUnhealthy",
	2:  "NextBackend[ip_hash_consistent] || MarkBackendUnhealthy",
	3:  "NextBackend[round_robin] || MarkBackendUnhealthy",
	4:  "NextBackend[least_connections] || in-flight gauge update",
	5:  "ListBackends || in-flight gauge update",
	6:  "GetMetrics || GetMetrics",
	7:  "GetMetrics || RecordBackendRequest + UpdateBackendHealth + UpdateBackendConnections",
	8:  "Allow || Allow (same client, existing bucket)",
	9:  "Allow || Allow (same client, first requests)",
	10: "Allow || cleanup",
	11: "Execute || Execute",
	12: "Execute || State + Counts",
	13: "pool Get || Put",
	14: "pool Put || cleanup",
	15: "pool Get || Shutdown",
	16: "AddBackend || NextBackend",
	17: "RemoveBackend || NextBackend",
	18: "SetStrategy || NextBackend + ListBackends",
	19: "IsBackendHealthy (expiry) || MarkBackendUnhealthy (fresh ejection)",
	20: "ServeHTTP || ServeHTTP (same backend)",
	21: "RecordRequest/RecordResponse || GetMetrics",
	22: "ListBackends || MarkBackendUnhealthy (after an expired window)",
	23: "Execute || Execute inside a half-open episode (max_requests 3)",
	24: "NextBackend || NextBackend [round_robin]",
	25: "NextBackend || NextBackend [least_connections]",
	26: "NextBackend || NextBackend [weighted_round_robin]",
	27: "NextBackend || NextBackend [ip_hash]",
	28: "NextBackend || NextBackend [ip_hash_consistent]",
}

// VerifC12Pair runs two operations of the Helios-owned shared state
// concurrently from a small pre-state. The assertions are the executor's
// built-in ones: no data race (happens-before over locks, atomics, fork/join),
// no deadlock, no WaitGroup misuse, no unrecovered panic.
func VerifC12Pair(pair int) {
	r := verifRequest("10.1.2.3:4711")
	switch pair {
	case 0, 1, 2, 3:
		lb := verifBareLB([]int{2, 3, 4, 0}[pair])
		bs := verifPool(lb, 9, 2, false)
		verifrt.Go(func() { lb.NextBackend(r) })
		verifrt.Go(func() { lb.MarkBackendUnhealthy(bs[0], time.Second) })
	case 4:
		lb := verifBareLB(1)
		bs := verifPool(lb, 9, 2, false)
		verifrt.Go(func() { lb.NextBackend(r) })
		verifrt.Go(func() { bs[0].IncrementConnections(); bs[0].DecrementConnections() })
	case 5:
		lb := verifBareLB(0)
		bs := verifPool(lb, 9, 2, false)
		verifrt.Go(func() { lb.ListBackends() })
		verifrt.Go(func() { bs[0].IncrementConnections(); bs[0].DecrementConnections() })
	case 6:
		mc := metrics.NewMetricsCollector()
		mc.UpdateBackendHealth("b0", true)
		verifrt.Go(func() { mc.GetMetrics() })
		verifrt.Go(func() { mc.GetMetrics() })
	case 7:
		mc := metrics.NewMetricsCollector()
		mc.UpdateBackendHealth("b0", true)
		verifrt.Go(func() { mc.GetMetrics() })
		verifrt.Go(func() {
			mc.RecordBackendRequest("b0", true, time.Millisecond)
			mc.UpdateBackendHealth("b0", false)
			mc.UpdateBackendConnections("b0", 1)
		})
	case 8, 9, 10:
		rl := ratelimiter.VerifNewLimiter(2, time.Second) // built directly: the cleanup goroutine's ticker loop is not part of the pair
		if pair != 9 {
			rl.Allow("c")
		}
		verifrt.Go(func() { rl.Allow("c") })
		if pair == 10 {
			verifrt.Advance(2 * time.Hour)
			verifrt.Go(func() { verifLimiterCleanup(rl) })
		} else {
			verifrt.Go(func() { rl.Allow("c") })
		}
	case 11, 12:
		lb, _ := verifFullLB(0, 1, 0)
		cfg := &config.Config{}
		cfg.CircuitBreaker = config.CircuitBreakerConfig{Enabled: true, MaxRequests: 1, IntervalSeconds: 60, TimeoutSeconds: 30, FailureThreshold: 1, SuccessThreshold: 1}
		lb.setupCircuitBreaker(cfg)
		cb := lb.circuitBreaker
		verifrt.Go(func() { cb.Execute(func() error { verifrt.Rendezvous(2); return verifProbeErr }) })
		if pair == 11 {
			verifrt.Go(func() { cb.Execute(func() error { verifrt.Rendezvous(2); return nil }) })
		} else {
			verifrt.Go(func() { cb.State(); cb.Counts() })
		}
		_ = circuitbreaker.StateClosed
	case 13, 14, 15:
		p := &WebSocketPool{pools: make(map[string]*connPool), maxIdle: 2, maxActive: 10, idleTimeout: time.Minute}
		p.Put("x", &verifConn{id: 0})
		switch pair {
		case 13:
			verifrt.Go(func() { p.Get("x") })
			verifrt.Go(func() { p.Put("x", &verifConn{id: 1}) })
		case 14:
			verifrt.Go(func() { p.Put("y", &verifConn{id: 1}) })
			verifrt.Go(func() { p.cleanup() })
		case 15:
			verifrt.Go(func() { p.Get("x") })
			verifrt.Go(func() { p.Shutdown() })
		}
	case 16, 17, 18:
		lb := verifBareLB(0)
		lb.metricsCollector = metrics.NewMetricsCollector()
		verifPool(lb, 9, 2, false)
		switch pair {
		case 16:
			verifrt.Go(func() { lb.AddBackend(config.BackendConfig{Name: "n", Address: "http://n:80"}) })
		case 17:
			verifrt.Go(func() { lb.RemoveBackend("b0") })
		case 18:
			verifrt.Go(func() { lb.SetStrategy("least_connections") })
		}
		verifrt.Go(func() {
			if b := lb.NextBackend(r); b != nil {
				lb.IsBackendHealthy(b)
			}
			lb.ListBackends()
		})
	case 19:
		VerifC04Race()
		return
	case 20:
		VerifC13Interleaved()
		return
	case 23:
		// two concurrent trial requests inside a half-open episode that still has budget (max_requests 3)
		cb := circuitbreaker.NewCircuitBreaker(circuitbreaker.Settings{Name: "verif", MaxRequests: 3, Interval: time.Minute, Timeout: time.Second, FailureThreshold: 1, SuccessThreshold: 3})
		cb.Execute(func() error { return verifProbeErr })
		verifrt.Advance(2 * time.Second)
		cb.Execute(func() error { return nil })
		verifrt.Go(func() { cb.Execute(func() error { verifrt.Rendezvous(2); return nil }) })
		verifrt.Go(func() { cb.Execute(func() error { verifrt.Rendezvous(2); return nil }) })
	case 22:
		// admin read racing an ejection, on a backend whose earlier window has expired
		lb := verifBareLB(0)
		lb.metricsCollector = metrics.NewMetricsCollector()
		bs := verifPool(lb, 9, 2, false)
		lb.MarkBackendUnhealthy(bs[0], time.Second)
		verifrt.Advance(2 * time.Second)
		verifrt.Go(func() { lb.ListBackends() })
		verifrt.Go(func() { lb.MarkBackendUnhealthy(bs[0], time.Minute) })
	case 24, 25, 26, 27, 28:
		// two requests of different clients pick a backend at the same time
		lb := verifBareLB(pair - 24)
		verifPool(lb, 9, 3, false)
		if rr, ok := lb.strategy.(*RoundRobinStrategy); ok {
			rr.current = 5 // the rotation position is irrelevant to the pair; C05 covers every position
		}
		r2 := verifRequest("10.9.8.7:4711")
		r2.Header.Set("X-Forwarded-For", "203.0.113.77")
		verifrt.Go(func() { lb.NextBackend(r) })
		verifrt.Go(func() { lb.NextBackend(r2) })
	case 21:
		mc := metrics.NewMetricsCollector()
		verifrt.Go(func() { mc.RecordRequest(); mc.RecordResponse(true, time.Millisecond); mc.RecordRateLimitedRequest() })
		verifrt.Go(func() { mc.GetMetrics() })
	}
	verifrt.WaitAll()
	verifrt.Reach("pair completed")
	_ = http.StatusOK
}

// VerifC04Race (C04c): an expiry check racing a fresh ejection.
func VerifC04Race() {
	lb := verifBareLB(0)
	lb.metricsCollector = metrics.NewMetricsCollector()
	bs := verifPool(lb, 9, 1, false)
	lb.MarkBackendUnhealthy(bs[0], time.Second)
	verifrt.Advance(2 * time.Second)
	var sawHealthy bool
	verifrt.Go(func() { sawHealthy = lb.IsBackendHealthy(bs[0]) })
	verifrt.Go(func() { lb.MarkBackendUnhealthy(bs[0], time.Minute) })
	verifrt.WaitAll()
	_ = sawHealthy
	verifrt.Assert(!bs[0].IsHealthy && bs[0].UnhealthyUntil.Equal(verifrt.Now().Add(time.Minute)), "an expiry check racing a fresh ejection never loses the ejection")
	m := lb.metricsCollector.GetMetrics()
	verifrt.Assert(!m.BackendMetrics[bs[0].Name].IsHealthy, "the metrics endpoint never reports an ejected backend as healthy (expiry check racing a fresh ejection)")
	verifrt.Assert(!lb.ListBackends()[0].Healthy, "the admin API never reports an ejected backend as healthy (expiry check racing a fresh ejection)")
	return
}

// VerifC13Interleaved (C13b): two interleaved requests to one backend; gauge and mirror at quiescence.
func VerifC13Interleaved() {
	lb, bs := verifFullLB(0, 1, 0)
	verifForceOK = true
	serve := func() {
		rec := verifNewRecorder()
		verifServe(lb, rec, rec.finish, verifRequest("10.1.2.3:4711"))
	}
	verifrt.Go(serve)
	verifrt.Go(serve)
	verifrt.WaitAll()
	verifForceOK = false
	m := lb.metricsCollector.GetMetrics()
	verifrt.Assert(bs[0].GetActiveConnections() == 0, "gauge is zero at quiescence")
	verifrt.Assert(m.BackendMetrics[bs[0].Name].ActiveConnections == 0, "published gauge mirror is zero at quiescence")
	verifrt.Assert(m.TotalRequests == 2 && m.SuccessfulRequests == 2, "both concurrent requests are counted")
	verifrt.Assert(m.BackendMetrics[bs[0].Name].TotalRequests == 2, "the backend's own total counts every request it was sent, also when the two finish at the same time")
	return
}

// VerifC12PickVsLastEjection: one backend of two is already ejected; a pick
// runs while the other one - the last healthy backend - is being ejected. The
// pick returns that backend or none; it does not panic, under any strategy.
func VerifC12PickVsLastEjection(strategy int) {
	lb := verifBareLB(strategy)
	bs := []*Backend{verifBackend(0), verifBackend(1)}
	for _, b := range bs {
		lb.strategy.AddBackend(b)
	}
	lb.MarkBackendUnhealthy(bs[1], time.Hour)
	var got *Backend
	verifrt.Go(func() { got = lb.NextBackend(verifRequest("10.1.2.3:4711")) })
	verifrt.Go(func() { lb.MarkBackendUnhealthy(bs[0], time.Hour) })
	verifrt.WaitAll()
	verifrt.Assert(got == nil || got == bs[0] || got == bs[1], "a pick racing the ejection of the last healthy backend returns a pool member or nothing")
	verifrt.Assert(lb.findHealthyBackend(verifRequest("10.1.2.3:4711")) == nil, "with every backend inside its window no backend is dispatched to")
}

// verifHold: released by a harness to let held requests (X-Verif-Hold) finish.
var verifHold int32

// VerifC13InFlightAcrossEjection: a request is in flight at a backend while
// that backend is ejected (by a failed probe or by other requests' failures),
// its unhealthy window passes and it is re-admitted. All along the gauge counts
// the request that is still in flight, and returns to zero when it completes.
func VerifC13InFlightAcrossEjection() {
	lb, bs := verifFullLB(0, 1, 0)
	atomic.StoreInt32(&verifHold, 0)
	b := bs[0]
	mirror := func() int32 { return lb.metricsCollector.GetMetrics().BackendMetrics[b.Name].ActiveConnections }
	verifrt.Go(func() {
		r := verifRequest("10.1.2.3:4711")
		r.Header.Set("X-Verif-Hold", "1")
		r.Header.Set("X-Verif-Outcome", "200")
		rec := verifNewRecorder()
		verifServe(lb, rec, rec.finish, r)
	})
	verifrt.Settle()
	verifrt.Assert(b.GetActiveConnections() == 1 && mirror() == 1, "the gauge counts a request that has been dispatched and has not completed")
	lb.MarkBackendUnhealthy(b, time.Second)
	verifrt.Advance(2 * time.Second)
	verifrt.Assert(lb.IsBackendHealthy(b), "the backend is eligible again once its window has passed")
	if verifrt.Bool("aRequestAfterTheRecovery") {
		r := verifRequest("10.9.9.9:4711")
		r.Header.Set("X-Verif-Outcome", "200")
		rec := verifNewRecorder()
		verifServe(lb, rec, rec.finish, r)
	}
	verifrt.Assert(b.GetActiveConnections() == 1 && mirror() == 1, "ejection and re-admission do not change the number of requests in flight at the backend")
	atomic.StoreInt32(&verifHold, 1)
	verifrt.WaitAll()
	verifrt.Assert(b.GetActiveConnections() == 0 && mirror() == 0, "gauge and published mirror are zero at quiescence")
}
