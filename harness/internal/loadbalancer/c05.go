package loadbalancer

import (
	"net/http"
	"sync"
	"time"

	"github.com/0xReLogic/Helios/internal/config"
	"github.com/0xReLogic/Helios/internal/verifrt"
)

// VerifC05RoundRobin: with n eligible backends and ANY rotation counter, every
// window of n consecutive picks hits each backend exactly once (rounds windows
// are checked back to back, so n*rounds picks give exactly rounds each).
func VerifC05RoundRobin(n int, rounds int) {
	lb := verifBareLB(0)
	bs := verifPool(lb, 0, n, false)
	r := verifRequest("10.1.2.3:4711")
	for w := 0; w < rounds; w++ {
		seen := make([]int, n)
		for i := 0; i < n; i++ {
			b := lb.findHealthyBackend(r)
			idx := verifIndexOf(bs, b)
			verifrt.Assert(idx >= 0, "round_robin returns a pool member")
			seen[idx]++
		}
		for i := 0; i < n; i++ {
			verifrt.Assert(seen[i] == 1, "round_robin: each backend gets exactly one of every n consecutive requests")
		}
	}
}

// VerifC05RoundRobinEjected: a stable subset of the pool is inside an unhealthy
// window (every subset, any rotation counter). The m eligible backends share
// the traffic exactly: the first m picks hit each eligible backend once and the
// sequence repeats with period m (so every window of m consecutive picks does).
func VerifC05RoundRobinEjected(n int) {
	lb := verifBareLB(0)
	bs := verifPool(lb, 0, n, false)
	m := 0
	elig := make([]bool, n)
	for i, b := range bs {
		if verifrt.Bool("ejected") {
			b.IsHealthy = false
			b.UnhealthyUntil = verifrt.Now().Add(time.Hour)
		} else {
			elig[i] = true
			m++
		}
	}
	r := verifRequest("10.1.2.3:4711")
	if m == 0 {
		verifrt.Assert(lb.findHealthyBackend(r) == nil, "no eligible backend: no dispatch")
		return
	}
	picks := make([]int, 2*m)
	seen := make([]int, n)
	for i := range picks {
		b := lb.findHealthyBackend(r)
		idx := verifIndexOf(bs, b)
		verifrt.Assert(idx >= 0, "round_robin returns a pool member")
		verifrt.Assert(elig[idx], "round_robin never dispatches to an ejected backend")
		picks[i] = idx
		if i < m {
			seen[idx]++
		}
	}
	for i := 0; i < n; i++ {
		if elig[i] {
			verifrt.Assert(seen[i] == 1, "round_robin with ejected members: each eligible backend gets exactly one of every m consecutive requests")
		}
	}
	for i := 0; i < m; i++ {
		verifrt.Assert(picks[i+m] == picks[i], "round_robin with ejected members: the rotation has period m")
	}
}

// VerifC05RRConcurrentEjected: the counting claim with one ejected member:
// concurrent pickers give each of the m = n-1 eligible backends exactly k of
// m*k requests, however they interleave.
func VerifC05RRConcurrentEjected(n int, threads int, perThread int) {
	lb := verifBareLB(0)
	bs := verifPool(lb, 0, n, false)
	e := verifrt.Choice("ejected", n)
	bs[e].IsHealthy = false
	bs[e].UnhealthyUntil = verifrt.Now().Add(time.Hour)
	r := verifRequest("10.1.2.3:4711")
	var mu sync.Mutex
	count := make([]int, n)
	for t := 0; t < threads; t++ {
		verifrt.Go(func() {
			for i := 0; i < perThread; i++ {
				b := lb.NextBackend(r)
				mu.Lock()
				count[verifIndexOf(bs, b)]++
				mu.Unlock()
			}
		})
	}
	verifrt.WaitAll()
	total := threads * perThread
	for i := range count {
		if i == e {
			verifrt.Assert(count[i] == 0, "round_robin: an ejected backend is never picked while another is eligible")
		} else {
			verifrt.Assert(count[i]*(n-1) == total, "round_robin with an ejected member: concurrent pickers give every eligible backend exactly k of m*k requests")
		}
	}
}

// VerifC05LeastConn: whenever least_connections dispatches, the chosen
// backend's in-flight gauge is minimal among the eligible backends.
func VerifC05LeastConn(n int) {
	lb := verifBareLB(1)
	bs := verifPool(lb, 1, n, true)
	inWin := make([]bool, n)
	for i, b := range bs {
		inWin[i] = verifInWindow(b)
	}
	got := lb.findHealthyBackend(verifRequest("10.1.2.3:4711"))
	if got != nil {
		g := got.ActiveConnections
		for i, b := range bs {
			verifrt.Assert(verifrt.Or(inWin[i], g <= b.ActiveConnections), "least_connections picks a backend whose gauge is minimal among eligible backends")
		}
	}
	verifrt.Reach("lc-done")
}

// VerifC05WRRCycle: a fresh pool built through the real AddBackend (weights
// 0..wmax, weight<1 counts as 1): in sum(w) consecutive picks backend i is
// returned exactly w_i times and the running weights are back at zero.
func VerifC05WRRCycle(n int, wmax int) {
	lb := verifBareLB(2)
	w := make([]int, n)
	total := 0
	for i := 0; i < n; i++ {
		w[i] = verifrt.IntRange("weight", 0, wmax)
		err := lb.AddBackend(config.BackendConfig{Name: verifNames[i], Address: "http://" + verifNames[i] + ":80", Weight: w[i]})
		verifrt.Assert(err == nil, "AddBackend accepts a well-formed address")
		if w[i] < 1 {
			w[i] = 1
		}
		total += w[i]
	}
	bs := lb.strategy.GetBackends()
	count := make([]int, n)
	r := verifRequest("10.1.2.3:4711")
	for t := 0; t < total; t++ {
		b := lb.findHealthyBackend(r)
		idx := verifIndexOf(bs, b)
		verifrt.Assert(idx >= 0, "weighted_round_robin returns a pool member")
		count[idx]++
	}
	for i := 0; i < n; i++ {
		verifrt.Assert(count[i] == w[i], "weighted_round_robin: backend i gets exactly w_i of every sum(w) consecutive requests (weights below 1 count as 1)")
	}
	for _, wb := range lb.strategy.(*WeightedRoundRobinStrategy).backends {
		verifrt.Assert(wb.currentWeight == 0, "smooth-WRR running weights return to zero after a full cycle")
	}
}

// VerifC05NegWRR: negative twin - claims the cycle is exact after sum(w)-1 picks.
func VerifC05NegWRR() {
	lb := verifBareLB(2)
	w0 := verifrt.IntRange("weight", 1, 3)
	w1 := verifrt.IntRange("weight", 1, 3)
	b0, b1 := verifBackend(0), verifBackend(1)
	b0.Weight, b1.Weight = w0, w1
	lb.strategy.AddBackend(b0)
	lb.strategy.AddBackend(b1)
	c0 := 0
	r := verifRequest("10.1.2.3:4711")
	for t := 0; t < w0+w1-1; t++ {
		if lb.findHealthyBackend(r) == b0 {
			c0++
		}
	}
	verifrt.Assert(c0 == w0, "NEGATIVE TWIN: exact share one pick early")
}

// VerifC05WRRDrift: weighted_round_robin after a health history. One backend
// is ejected, traffic continues for h picks, the backend recovers; in every
// window of t <= T picks after that each backend stays within
// 2 * (total configured weight / eligible weight) of its proportional share:
// |count_i * W_eligible - t * w_i| <= 2 * W_total.
func VerifC05WRRDrift(n int, h int, T int) {
	lb := verifBareLB(2)
	bs := make([]*Backend, n)
	total := 0
	for i := range bs {
		bs[i] = verifBackend(i)
		bs[i].Weight = verifrt.IntRange("weight", 1, 2)
		total += bs[i].Weight
		lb.strategy.AddBackend(bs[i])
	}
	r := verifRequest("10.1.2.3:4711")
	victim := verifrt.Choice("ejected", n)
	lb.MarkBackendUnhealthy(bs[victim], 10*time.Second)
	for i := 0; i < h; i++ {
		got := lb.findHealthyBackend(r)
		verifrt.Assert(got != bs[victim], "an ejected backend is not picked")
	}
	verifrt.Advance(11 * time.Second)
	verifrt.Assert(lb.IsBackendHealthy(bs[victim]), "the backend is eligible again after its window")
	count := make([]int, n)
	for t := 1; t <= T; t++ {
		got := lb.findHealthyBackend(r)
		idx := verifIndexOf(bs, got)
		verifrt.Assert(idx >= 0, "weighted_round_robin returns a pool member")
		count[idx]++
		for i := range bs {
			d := count[i]*total - t*bs[i].Weight
			verifrt.Assert(-2*total <= d && d <= 2*total, "weighted_round_robin stays within 2*W_total/W_eligible of the proportional share after a health history")
		}
	}
}

// VerifC05WRRHistory: weighted_round_robin after ANY history of <= h
// membership and health changes (add with a weight, remove, eject, recover,
// pick), then a window of T picks over the then-fixed eligible set: every
// backend stays within 2 * W_total / W_eligible of its proportional share,
//
//	|count_i * W_eligible - t * w_i| <= 2 * W_total   for every t <= T,
//
// where W_total is the largest total configured weight seen during the history.
func VerifC05WRRHistory(h int, T int) {
	lb := verifBareLB(2)
	var bs []*Backend
	add := func() {
		b := verifBackend(len(bs))
		b.Weight = verifrt.IntRange("weight", 1, 2)
		bs = append(bs, b)
		lb.strategy.AddBackend(b)
	}
	add()
	add()
	removed := make([]bool, 8)
	r := verifRequest("10.1.2.3:4711")
	maxTotal := 0
	totalNow := func() int {
		t := 0
		for i, b := range bs {
			if !removed[i] {
				t += b.Weight
			}
		}
		return t
	}
	maxTotal = totalNow()
	for i := 0; i < h; i++ {
		switch verifrt.Choice("op", 5) {
		case 0:
			if len(bs) < 4 {
				add()
			}
		case 1:
			j := verifrt.Choice("victim", len(bs))
			if !removed[j] {
				removed[j] = true
				lb.strategy.RemoveBackend(bs[j])
			}
		case 2:
			j := verifrt.Choice("victim", len(bs))
			lb.MarkBackendUnhealthy(bs[j], time.Hour)
		case 3:
			j := verifrt.Choice("victim", len(bs))
			bs[j].Mutex.Lock()
			bs[j].IsHealthy = true
			bs[j].Mutex.Unlock()
		case 4:
			lb.findHealthyBackend(r)
		}
		if t := totalNow(); t > maxTotal {
			maxTotal = t
		}
	}
	// the window
	we := 0
	for i, b := range bs {
		if !removed[i] && b.IsHealthy {
			we += b.Weight
		}
	}
	if we == 0 {
		verifrt.Assert(lb.findHealthyBackend(r) == nil, "no eligible backend: no pick")
		return
	}
	count := make([]int, len(bs))
	for t := 1; t <= T; t++ {
		got := lb.findHealthyBackend(r)
		idx := verifIndexOf(bs, got)
		verifrt.Assert(idx >= 0 && !removed[idx] && bs[idx].IsHealthy, "weighted_round_robin picks an eligible member")
		count[idx]++
		for i := range bs {
			if removed[i] || !bs[i].IsHealthy {
				continue
			}
			d := count[i]*we - t*bs[i].Weight
			verifrt.Assert(-2*maxTotal <= d && d <= 2*maxTotal, "weighted_round_robin stays within 2*W_total/W_eligible of the proportional share after any membership/health history")
		}
	}
}

// VerifC05RRConcurrent: n*k picks made by `threads` concurrent pickers hit
// every backend exactly k times, however they interleave (the atomic ticket).
func VerifC05RRConcurrent(n int, threads int, perThread int) {
	lb := verifBareLB(0)
	bs := verifPool(lb, 0, n, false)
	r := verifRequest("10.1.2.3:4711")
	var mu sync.Mutex
	count := make([]int, n)
	for t := 0; t < threads; t++ {
		verifrt.Go(func() {
			for i := 0; i < perThread; i++ {
				b := lb.NextBackend(r)
				mu.Lock()
				count[verifIndexOf(bs, b)]++
				mu.Unlock()
			}
		})
	}
	verifrt.WaitAll()
	total := threads * perThread
	for i := range count {
		verifrt.Assert(count[i]*n == total, "round_robin: concurrent pickers give every backend exactly k of n*k requests")
	}
}

// VerifC05PickDuringBookkeeping: a pick that overlaps health bookkeeping which
// leaves the eligible set as it is - a successful probe of a healthy backend, an
// admin listing - still obeys the strategy's contract: least_connections picks
// the backend with the fewest requests in flight, round_robin and
// weighted_round_robin pick an eligible backend (never nil).
func VerifC05PickDuringBookkeeping(strategy int) {
	lb := verifBareLB(strategy)
	bs := make([]*Backend, 3)
	for i := range bs {
		bs[i] = verifBackend(i)
		lb.strategy.AddBackend(bs[i])
	}
	bs[0].ActiveConnections, bs[1].ActiveConnections, bs[2].ActiveConnections = 3, 0, 5
	probed := bs[verifrt.Choice("probedBackend", 3)]
	var got *Backend
	verifrt.Go(func() { got = lb.NextBackend(verifRequest("10.1.2.3:4711")) })
	verifrt.Go(func() {
		lb.processHealthCheckResponse(probed, &http.Response{StatusCode: http.StatusOK})
		lb.ListBackends()
	})
	verifrt.WaitAll()
	verifrt.Assert(got != nil, "a pick that overlaps a successful probe still finds an eligible backend")
	if strategy == 1 {
		verifrt.Assert(got == bs[1], "least_connections picks the backend with the fewest requests in flight, whatever bookkeeping runs at the same time")
	}
}
