package loadbalancer

import "net/http"

// Exported wrappers so that harnesses in other packages (cmd/helios) can build
// the same scripted balancer and connection model.

// VerifScriptedLB builds a balancer over n scripted backends (see verifFullLB).
func VerifScriptedLB(strategy, n, features int) *LoadBalancer {
	keep := verifNoInterim
	lb, _ := verifFullLB(strategy, n, features)
	verifNoInterim = keep
	return lb
}

// VerifBackendHits: how many requests the scripted backend `name` received.
func VerifBackendHits(name string) int { return verifProxyHits[name] }

// VerifForceOK makes every scripted backend answer 200 from now on.
func VerifForceOK(on bool) { verifForceOK = on }

// VerifServerRequest marks a request as running under an http.Server (native replay only).
func VerifServerRequest(r *http.Request) *http.Request { return verifServerCtx(r) }

// VerifLastBackend: kind (0 status, 1 refused, 2 aborted mid-body) and status of the last scripted backend behaviour.
func VerifLastBackend() (int, int) {
	verifMu.Lock()
	defer verifMu.Unlock()
	return verifLastKind, verifLastStatus
}

// VerifAllowInterim: whether scripted backends may send an interim 103 before the final status.
func VerifAllowInterim(on bool) { verifNoInterim = !on }
