package loadbalancer

import (
	"net/http"

	"github.com/0xReLogic/Helios/internal/config"
	"github.com/0xReLogic/Helios/internal/verifrt"
)

// Exported wrappers so that harnesses in other packages (cmd/helios) can build
// the same scripted balancer and connection model.

// VerifScriptedLB builds a balancer over n scripted backends (see verifFullLB).
func VerifScriptedLB(strategy, n, features int) *LoadBalancer {
	keep := verifNoInterim
	lb, _ := verifFullLB(strategy, n, features)
	verifNoInterim = keep
	return lb
}

// VerifBackendHits: how many requests the scripted backend `name` received.
func VerifBackendHits(name string) int { return verifProxyHits[name] }

// VerifForceOK makes every scripted backend answer 200 from now on.
func VerifForceOK(on bool) { verifForceOK = on }

// VerifServerRequest marks a request as running under an http.Server (native replay only).
func VerifServerRequest(r *http.Request) *http.Request { return verifServerCtx(r) }

// VerifLastBackend: kind (0 status, 1 refused, 2 aborted mid-body) and status of the last scripted backend behaviour.
func VerifLastBackend() (int, int) {
	verifMu.Lock()
	defer verifMu.Unlock()
	return verifLastKind, verifLastStatus
}

// VerifAllowInterim: whether scripted backends may send an interim 103 before the final status.
func VerifAllowInterim(on bool) { verifNoInterim = !on }

// VerifUpgradeHadDeadline: whether the last Upgrade request reached the reverse proxy with a deadline on its context.
func VerifUpgradeHadDeadline() bool { return verifUpgradeDeadline }

// VerifConfiguredLB builds the balancer the way main does - through the real
// NewLoadBalancer from a configuration - and then puts the scripted backend
// behind every backend's reverse proxy. The optional features are written into
// the configuration sections (so the real setupRateLimiter / setupCircuitBreaker /
// createHealthChecker run). c keeps whatever the caller already put into it
// (server timeouts, plugins, logging).
func VerifConfiguredLB(c *config.Config, features int) *LoadBalancer {
	keep := verifNoInterim
	c.LoadBalancer.Strategy = "round_robin"
	c.Backends = []config.BackendConfig{{Name: "b0", Address: "http://b0:80", Weight: 1}}
	if features&verifFeatLimiter != 0 {
		c.RateLimit.Enabled = true
		c.RateLimit.MaxTokens = verifrt.IntRange("max_tokens", 1, 2)
		c.RateLimit.RefillRate = 1
	}
	if features&verifFeatBreaker != 0 {
		c.CircuitBreaker = config.CircuitBreakerConfig{Enabled: true, MaxRequests: 1, IntervalSeconds: 60, TimeoutSeconds: 30,
			FailureThreshold: verifrt.IntRange("failure_threshold", 1, 2), SuccessThreshold: 1}
	}
	if features&verifFeatPassive != 0 {
		c.HealthChecks.Passive = config.PassiveHealthCheckConfig{Enabled: true, UnhealthyThreshold: verifrt.IntRange("unhealthy_threshold", 1, 2), UnhealthyTimeout: 30}
	}
	lb, err := NewLoadBalancer(c)
	verifrt.Assert(err == nil && lb != nil, "the balancer starts from a valid configuration")
	for k := range verifProxyHits {
		delete(verifProxyHits, k)
	}
	for _, b := range lb.strategy.GetBackends() {
		b.ReverseProxy.Transport = &verifFakeRT{name: b.Name}
		b.ReverseProxy.ErrorLog = verifQuietLog
	}
	verifNoInterim = keep
	return lb
}

// VerifBackendSlow: the scripted backend takes longer than the configured handler
// timeout to answer (natively it really waits; under the executor only the
// TimeoutHandler model looks at it, no time passes otherwise).
func VerifBackendSlow(on bool) { verifSlowBackend = on }

var verifSlowBackend bool
