package loadbalancer

import (
	"bufio"
	"net"
	"net/http"

	"github.com/0xReLogic/Helios/internal/verifrt"
)

// verifHijackRecorder is a recorder whose connection can be hijacked.
type verifHijackRecorder struct {
	*verifRecorder
}

func (r *verifHijackRecorder) Hijack() (net.Conn, *bufio.ReadWriter, error) {
	r.hijacks++
	return nil, nil, nil
}

var verifHeaderKeys = []string{"Content-Type", "X-Backend", "Set-Cookie"}

// VerifC01Writer: the balancer's status-capturing writer is transparent. The
// "reverse proxy" performs any sequence of <= k calls (header mutations,
// interim and final WriteHeader, Write, flush request exactly as
// http.ResponseController issues it, Hijack) against it; the client
// connection must observe the identical sequence, and a flush request must
// reach the connection before the handler ends.
func VerifC01Writer(k int) {
	rec := &verifHijackRecorder{verifNewRecorder()}
	ref := &verifHijackRecorder{verifNewRecorder()} // the same calls made directly on a connection
	rw := &responseWriter{ResponseWriter: rec, statusCode: http.StatusOK}
	finalSeen := false
	for i := 0; i < k; i++ {
		switch verifrt.Choice("call", 6) {
		case 0:
			key := verifHeaderKeys[verifrt.Choice("key", 3)]
			val := verifrt.String("val", 1)
			switch verifrt.Choice("mutation", 3) {
			case 0:
				rw.Header().Set(key, val)
				ref.Header().Set(key, val)
			case 1:
				rw.Header().Add(key, val)
				ref.Header().Add(key, val)
			default:
				rw.Header().Del(key)
				ref.Header().Del(key)
			}
		case 1:
			code := verifrt.IntRange("status", 100, 599)
			rw.WriteHeader(code)
			ref.WriteHeader(code)
			if (code >= 200 || code == 101) && !finalSeen {
				finalSeen = true
				verifrt.Assert(rw.statusCode == code, "captured status equals the status written")
			}
		case 2:
			n := verifrt.Choice("len", 3)
			buf := make([]byte, n)
			got, err := rw.Write(buf)
			ref.Write(buf)
			verifrt.Assert(got == n && err == nil, "Write reports what the connection reports")
		case 3:
			// a flush request as http.ResponseController (used by ReverseProxy) performs it
			err := http.NewResponseController(rw).Flush()
			ref.Flush()
			verifrt.Assert(err == nil, "a flush request is supported through the wrapper (streaming, SSE)")
		case 4:
			_, _, err := rw.Hijack()
			ref.hijacks++
			verifrt.Assert(err == nil, "Hijack reaches the connection")
		case 5:
			verifrt.Reach("no-op")
		}
		verifrt.Assert(rec.status == ref.status && rec.wroteHeader == ref.wroteHeader && rec.interim == ref.interim, "status line and interim responses are forwarded unchanged")
		verifrt.Assert(rec.bodyLen == ref.bodyLen && rec.writes == ref.writes, "body bytes are forwarded unchanged, write by write")
		verifrt.Assert(rec.flushes == ref.flushes, "flushed bytes reach the client without waiting for the response to end")
		verifrt.Assert(rec.hijacks == ref.hijacks, "Hijack reaches the connection exactly once per call")
		verifrt.Assert(verifSameHeader(rec.hdr, ref.hdr) && verifSameHeader(rec.wire, ref.wire), "headers (live map and on-the-wire snapshot) are forwarded unchanged")
	}
}

func verifSameHeader(a, b http.Header) bool {
	ok := len(a) == len(b)
	for _, k := range verifHeaderKeys {
		va, vb := a[k], b[k]
		if len(va) != len(vb) {
			return false
		}
		for i := range va {
			ok = verifrt.And(ok, va[i] == vb[i])
		}
	}
	return ok
}
