package loadbalancer

import (
	"context"
	"errors"
	"github.com/0xReLogic/Helios/internal/verifrt"
	"io"
	"log"
	"net/http"
	"net/http/httptrace"
	"net/http/httputil"
	"net/textproto"
	"time"
)

var verifQuietLog = log.New(io.Discard, "", 0)

// Native side: a REAL httputil.ReverseProxy over the scripted backend.
func verifProxyFor(name string) *httputil.ReverseProxy {
	return &httputil.ReverseProxy{
		Director:  func(*http.Request) {},
		Transport: &verifFakeRT{name: name},
		ErrorLog:  log.New(io.Discard, "", 0),
	}
}

type verifBrokenBody struct{ sent bool }

func (b *verifBrokenBody) Read(p []byte) (int, error) {
	if !b.sent {
		b.sent = true
		p[0] = 'o'
		return 1, nil
	}
	return 0, errors.New("verif: backend reset the connection mid-body")
}
func (b *verifBrokenBody) Close() error { return nil }

// verifChunkedBody delivers the body chunk by chunk (one Read each), as a streaming backend does.
type verifChunkedBody struct{ chunks []string }

func (b *verifChunkedBody) Read(p []byte) (int, error) {
	if len(b.chunks) == 0 {
		return 0, io.EOF
	}
	n := copy(p, b.chunks[0])
	b.chunks = b.chunks[1:]
	return n, nil
}
func (b *verifChunkedBody) Close() error { return nil }

func (t *verifFakeRT) RoundTrip(req *http.Request) (*http.Response, error) {
	verifHit(t.name)
	if req.Header.Get("X-Verif-Hold") != "" {
		verifrt.WaitFor(&verifHold) // the backend takes its time: the request stays in flight until the harness releases it
	}
	if req.Header.Get("Upgrade") != "" {
		// a tunnel lives until one side closes it: note whether a timer is attached to the request that reaches the proxy
		_, has := req.Context().Deadline()
		verifSetUpgradeDeadline(has)
	}
	if verifSlowBackend {
		// a backend slower than server.timeouts.handler (1 s in the harness); like a real transport, give up when the request is cancelled
		select {
		case <-time.After(1300 * time.Millisecond):
		case <-req.Context().Done():
			return nil, req.Context().Err()
		}
	}
	kind, status := verifNextOutcome(req)
	if kind != verifOutRefused {
		for n := verifInterims(); n > 0; n-- {
			// deliver the interim response the way a real Transport does: through the client trace
			if tr := httptrace.ContextClientTrace(req.Context()); tr != nil && tr.Got1xxResponse != nil {
				tr.Got1xxResponse(verifInterimStatus(), textproto.MIMEHeader{verifInterimHeader: []string{"</style.css>; rel=preload"}})
			}
		}
	}
	h := http.Header{"Content-Type": []string{"text/plain"}}
	switch kind {
	case verifOutStatus:
		return &http.Response{StatusCode: status, Header: h, Body: &verifChunkedBody{chunks: []string{"o", "k"}}, ContentLength: -1, Request: req, ProtoMajor: 1, ProtoMinor: 1}, nil
	case verifOutRefused:
		return nil, errors.New("verif: connection refused")
	default:
		return &http.Response{StatusCode: status, Header: h, Body: &verifBrokenBody{}, ContentLength: -1, Request: req, ProtoMajor: 1, ProtoMinor: 1}, nil
	}
}

func init() {
	// under a real server a body copy error aborts the handler; make the
	// replay requests look like server requests
	verifServerCtx = func(r *http.Request) *http.Request {
		return r.WithContext(context.WithValue(r.Context(), http.ServerContextKey, &http.Server{}))
	}
}
