package loadbalancer

// verifProbeTarget: under the executor (*http.Client).Do is replaced by verifClientDo; the address is never dialled.
func verifProbeTarget() string { return "127.0.0.1:1" }
