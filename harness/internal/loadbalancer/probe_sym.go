package loadbalancer

// verifProbeTarget: under the executor performHealthCheck is replaced by verifStubProbe; the address is never dialled.
func verifProbeTarget() string { return "127.0.0.1:1" }
