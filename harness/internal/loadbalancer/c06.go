package loadbalancer

import (
	"net/http"
	"net/url"
	"strconv"
	"time"

	"github.com/0xReLogic/Helios/internal/verifrt"
)

// VerifC06Jump: the consistent-hash step for EVERY 32-bit hash value (as the
// strategy feeds it: uint64(hash32)) and bucket count n: the result is a valid
// bucket, and going from n to n+1 buckets either keeps it or moves it to the
// new bucket n.
func VerifC06Jump(n int) {
	h := verifrt.Uint32("hash")
	key := uint64(h)
	r1 := jumpHash(key, int32(n))
	verifrt.Assert(0 <= r1 && r1 < int32(n), "jumpHash result is a valid bucket index")
	r2 := jumpHash(key, int32(n+1))
	verifrt.Assert(r2 == r1 || r2 == int32(n), "appending a bucket moves a key only to the new bucket")
}

// VerifC06Jump64: same for arbitrary 64-bit keys (wider than what the strategy uses).
func VerifC06Jump64(n int) {
	key := verifrt.Uint64("key")
	r1 := jumpHash(key, int32(n))
	verifrt.Assert(0 <= r1 && r1 < int32(n), "jumpHash result is a valid bucket index")
	r2 := jumpHash(key, int32(n+1))
	verifrt.Assert(r2 == r1 || r2 == int32(n), "appending a bucket moves a key only to the new bucket")
}

// VerifC06Valid: for every client attribution string of length L and every
// flag pattern, ip_hash / ip_hash_consistent return a flag-eligible member of
// the pool, nil exactly when no backend is eligible, and never panic.
func VerifC06Valid(strategy int, n int, l int, mode int) {
	lb := verifBareLB(strategy)
	bs := make([]*Backend, n)
	any := false
	for i := range bs {
		bs[i] = verifBackend(i)
		bs[i].IsHealthy = verifrt.Bool("healthy")
		any = verifrt.Or(any, bs[i].IsHealthy)
		lb.strategy.AddBackend(bs[i])
	}
	r := verifRequest("")
	attr := verifrt.String("attr", l)
	switch mode {
	case 0:
		r.Header.Set("X-Forwarded-For", attr)
		r.Header.Set("X-Real-IP", "203.0.113.9")
		r.RemoteAddr = "198.51.100.7:999"
	case 1:
		r.Header.Set("X-Real-IP", attr)
		r.RemoteAddr = "198.51.100.7:999"
	default:
		// bracketed (IPv6 literal) spellings of RemoteAddr are outside the string model
		for i := 0; i < len(attr); i++ {
			verifrt.Assume(attr[i] != '[' && attr[i] != ']')
		}
		r.RemoteAddr = attr
	}
	got := lb.NextBackend(r)
	if got == nil {
		verifrt.Assert(!any, "nil only when no backend is eligible")
	} else {
		i := verifIndexOf(bs, got)
		verifrt.Assert(i >= 0, "the choice is a member of the pool")
		verifrt.Assert(got.IsHealthy, "the choice is an eligible backend")
	}
}

// VerifC06Affinity (2-safety): two requests that agree on the client
// attribution (X-Forwarded-For, X-Real-IP, RemoteAddr host) and differ in
// source port, path and other headers go to the same backend.
func VerifC06Affinity(strategy int, n int, l int, mode int) {
	lb := verifBareLB(strategy)
	for i := 0; i < n; i++ {
		b := verifBackend(i)
		b.IsHealthy = verifrt.Bool("healthy")
		lb.strategy.AddBackend(b)
	}
	attr := verifrt.String("attr", l)
	r1 := verifRequest("")
	r2 := verifRequest("")
	r2.URL.Path = "/another/path"
	r2.Method = "POST"
	r2.Header.Set("User-Agent", "other")
	r2.Header.Set("X-Other", "1")
	switch mode {
	case 0:
		r1.Header.Set("X-Forwarded-For", attr)
		r2.Header.Set("X-Forwarded-For", attr)
		r1.RemoteAddr, r2.RemoteAddr = "198.51.100.7:999", "198.51.100.7:31999"
	case 1:
		r1.Header.Set("X-Real-IP", attr)
		r2.Header.Set("X-Real-IP", attr)
		r1.RemoteAddr, r2.RemoteAddr = "198.51.100.7:999", "198.51.100.7:31999"
	default:
		// host is the symbolic part; it contains no colon so that it is a host
		for i := 0; i < len(attr); i++ {
			verifrt.Assume(attr[i] != ':' && attr[i] != '[' && attr[i] != ']')
		}
		r1.RemoteAddr = attr + ":999"
		r2.RemoteAddr = attr + ":31999"
	}
	b1 := lb.NextBackend(r1)
	b2 := lb.NextBackend(r2)
	verifrt.Assert(b1 == b2, "same client attribution -> same backend, whatever the port, path or other headers")
}

// VerifC06RemoteAddrForms: client attribution by RemoteAddr in the spellings
// net/http produces - "host:port" for IPv4, "[host]:port" for IPv6 (with and
// without a zone) - and the degenerate ones: two requests from the same host and
// different source ports go to the same backend under both hashing strategies.
func VerifC06RemoteAddrForms(strategy int, n int) {
	lb := verifBareLB(strategy)
	for i := 0; i < n; i++ {
		lb.strategy.AddBackend(verifBackend(i))
	}
	hosts := []string{"198.51.100.7", "[2001:db8::1]", "[::1]", "[fe80::1%eth0]", "[2001:db8::17]", "localhost"}
	h := hosts[verifrt.Choice("host", len(hosts))]
	ports := []string{"1", "80", "40000", "40001", "65535"}
	p1 := ports[verifrt.Choice("port1", len(ports))]
	p2 := ports[verifrt.Choice("port2", len(ports))]
	b1 := lb.NextBackend(verifRequest(h + ":" + p1))
	b2 := lb.NextBackend(verifRequest(h + ":" + p2))
	verifrt.Assert(b1 != nil && b1 == b2, "a client keeps its backend regardless of its source port, also for IPv6 peers ([host]:port)")
}

// VerifC06EjectAfterTraffic: a pool of n backends (n up to 70: beyond any
// machine-word sized bookkeeping) has served a client; the backend that served
// it is then ejected. The client's next request goes to an eligible backend, not
// to the ejected one - and after the backend has recovered, back to it.
func VerifC06EjectAfterTraffic(strategy int, n int) {
	lb := verifBareLB(strategy)
	bs := make([]*Backend, n)
	for i := range bs {
		bs[i] = &Backend{Name: "b" + strconv.Itoa(i), URL: &url.URL{Scheme: "http", Host: "b" + strconv.Itoa(i) + ":80"}, IsHealthy: true, Weight: 1}
		lb.strategy.AddBackend(bs[i])
	}
	r := verifRequest("198.51.100.7:999")
	if n <= 8 {
		r.Header.Set("X-Forwarded-For", verifrt.String("client", 2))
	} else {
		// a large pool: 64 concrete client addresses (the symbolic hash modulo a large n is too hard to fork on)
		r.Header.Set("X-Forwarded-For", "203.0.113."+strconv.Itoa(verifrt.Choice("client", 64)))
	}
	first := lb.findHealthyBackend(r)
	verifrt.Assert(first != nil, "a healthy pool serves")
	lb.MarkBackendUnhealthy(first, time.Hour)
	second := lb.findHealthyBackend(r)
	verifrt.Assert(second != nil && second != first, "after its backend has been ejected the client is served by another, eligible backend")
	verifrt.Advance(2 * time.Hour)
	third := lb.findHealthyBackend(r)
	verifrt.Assert(third == first, "once the backend is eligible again the client returns to it (same eligible set, same choice)")
}

// VerifC06AffinityConcurrent: requests of two different clients handled at the
// same time each reach the backend their client is pinned to (what the same
// requests get one after the other), whatever the interleaving.
func VerifC06AffinityConcurrent(strategy int, n int) {
	lb := verifBareLB(strategy)
	for i := 0; i < n; i++ {
		lb.strategy.AddBackend(verifBackend(i))
	}
	r1 := verifRequest("198.51.100.7:999")
	r2 := verifRequest("198.51.100.8:999")
	r2.Header.Set("X-Forwarded-For", "203.0.113.77, 10.0.0.1")
	want1, want2 := lb.NextBackend(r1), lb.NextBackend(r2)
	var got1, got2 *Backend
	verifrt.Go(func() { got1 = lb.NextBackend(r1) })
	if verifrt.Bool("healthBookkeepingInsteadOfSecondClient") {
		// health bookkeeping that leaves the eligible set as it is - a successful
		// active probe of the client's own backend, an admin listing - runs at the same time
		got2 = want2
		verifrt.Go(func() {
			lb.processHealthCheckResponse(want1, &http.Response{StatusCode: http.StatusOK})
			lb.ListBackends()
		})
	} else {
		verifrt.Go(func() { got2 = lb.NextBackend(r2) })
	}
	verifrt.WaitAll()
	verifrt.Assert(got1 == want1 && got2 == want2, "concurrent requests of different clients each reach their own client's backend (the eligible set does not change)")
}

// VerifC06Append: under ip_hash_consistent, appending a backend moves a
// client only to the new backend (all backends eligible).
func VerifC06Append(n int, l int) {
	lb := verifBareLB(4)
	for i := 0; i < n; i++ {
		lb.strategy.AddBackend(verifBackend(i))
	}
	r := verifRequest("198.51.100.7:999")
	r.Header.Set("X-Forwarded-For", verifrt.String("attr", l))
	before := lb.NextBackend(r)
	nb := verifBackend(n)
	// the appended backend's name may sort before, between or after the existing names
	nb.Name = []string{"b9-new", "a-new", "b0a", "B"}[verifrt.Choice("newName", 4)]
	lb.strategy.AddBackend(nb)
	after := lb.NextBackend(r)
	verifrt.Assert(before != nil && after != nil, "a backend is chosen")
	verifrt.Assert(after == before || after == nb, "appending a backend moves a client only to the new backend")
}

// VerifC06NegAffinity: negative twin - claims affinity across DIFFERENT attribution strings.
func VerifC06NegAffinity() {
	lb := verifBareLB(3)
	lb.strategy.AddBackend(verifBackend(0))
	lb.strategy.AddBackend(verifBackend(1))
	r1 := verifRequest("198.51.100.7:999")
	r2 := verifRequest("198.51.100.7:999")
	r1.Header.Set("X-Forwarded-For", verifrt.String("attr", 2))
	r2.Header.Set("X-Forwarded-For", verifrt.String("attr", 2))
	verifrt.Assert(lb.NextBackend(r1) == lb.NextBackend(r2), "NEGATIVE TWIN: different clients share a backend")
}
