package loadbalancer

import (
	"github.com/0xReLogic/Helios/internal/verifrt"
	"log"
	"net/http"
	"net/http/httputil"
)

var verifQuietLog *log.Logger

// verifProxyFor: the per-backend proxy object (its ServeHTTP is redirected to verifStubProxy).
func verifProxyFor(name string) *httputil.ReverseProxy {
	return &httputil.ReverseProxy{Transport: &verifFakeRT{name: name}}
}

func (t *verifFakeRT) RoundTrip(*http.Request) (*http.Response, error) { return nil, nil }

// verifStubProxy is the model of (*httputil.ReverseProxy).ServeHTTP over the
// scripted backend: forward status + body, or 502 from the default error
// handler, or abort after the headers with panic(http.ErrAbortHandler).
func verifStubProxy(p *httputil.ReverseProxy, rw http.ResponseWriter, req *http.Request) {
	name := p.Transport.(*verifFakeRT).name
	verifHit(name)
	if req.Header.Get("X-Verif-Hold") != "" {
		verifrt.WaitFor(&verifHold) // the backend takes its time: the request stays in flight until the harness releases it
	}
	if req.Header.Get("Upgrade") != "" {
		// a tunnel lives until one side closes it: note whether a timer is attached to the request that reaches the proxy
		_, has := req.Context().Deadline()
		verifSetUpgradeDeadline(has)
	}
	kind, status := verifNextOutcome(req)
	if kind != verifOutRefused {
		for n := verifInterims(); n > 0; n-- {
			// as ReverseProxy's Got1xxResponse hook does: copy the interim response's own
			// headers into the map, forward it, then clear the header map
			h := rw.Header()
			h[verifInterimHeader] = append(h[verifInterimHeader], "</style.css>; rel=preload")
			rw.WriteHeader(verifInterimStatus())
			for k := range h {
				delete(h, k)
			}
		}
	}
	switch kind {
	case verifOutStatus:
		// a body of unknown length is streamed: ReverseProxy writes every chunk it reads and flushes
		// after each one (flush interval -1 for ContentLength -1)
		rw.Header().Set("Content-Type", "text/plain")
		rw.WriteHeader(status)
		rw.Write([]byte("o"))
		http.NewResponseController(rw).Flush()
		rw.Write([]byte("k"))
		http.NewResponseController(rw).Flush()
	case verifOutRefused:
		rw.WriteHeader(http.StatusBadGateway)
	case verifOutAbort:
		rw.Header().Set("Content-Type", "text/plain")
		rw.WriteHeader(status)
		rw.Write([]byte("o"))
		panic(http.ErrAbortHandler)
	}
}
