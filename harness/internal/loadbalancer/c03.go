package loadbalancer

import (
	"net/http"
	"time"

	"github.com/0xReLogic/Helios/internal/circuitbreaker"
	"github.com/0xReLogic/Helios/internal/config"
	"github.com/0xReLogic/Helios/internal/verifrt"
)

var verifForceOK = false

// VerifC03Faults: after every sequence of <= k faulty exchanges (5xx storm,
// refused connection, response aborted mid-body, with time passing) nothing
// crashes or wedges (built-in deadlock detection), and once the backends
// behave again and the windows have passed, a request succeeds normally.
func VerifC03Faults(strategy, features, k int) {
	lb, bs := verifFullLB(strategy, 2, features)
	// a slow health probe may be in flight across the faults (hang before headers on the health endpoint)
	probeInFlight := verifrt.Bool("slowProbeInFlight") && lb.IsBackendHealthy(bs[0])
	for i := 0; i < k; i++ {
		if i > 0 && verifrt.Bool("timePasses") {
			verifrt.Advance(time.Duration(verifrt.IntRange("dt", 1, 1<<36)))
		}
		if probeInFlight && verifrt.Bool("probeCompletesNow") {
			probeInFlight = false
			if verifrt.Bool("probeOK") {
				lb.processHealthCheckResponse(bs[0], &http.Response{StatusCode: http.StatusOK})
			} else {
				lb.handleHealthCheckFailure(bs[0], verifProbeErr)
			}
		}
		rec := verifNewRecorder()
		_, crashed := verifServe(lb, rec, rec.finish, verifRequest("10.1.2.3:4711"))
		verifrt.Assert(!crashed, "no panic other than the re-raised abort")
		verifrt.Assert(rec.wroteHeader, "every request ends with a response (or a closed connection)")
	}
	// faults stop; every window (breaker timeout 30s, unhealthy window 30s, limiter refill 1s) passes
	verifrt.Advance(2 * time.Minute)
	verifForceOK = true
	ok := false
	for i := 0; i < 2; i++ {
		rec := verifNewRecorder()
		hits := verifProxyHits[bs[0].Name] + verifProxyHits[bs[1].Name]
		verifServe(lb, rec, rec.finish, verifRequest("10.1.2.3:4711"))
		if rec.status == http.StatusOK && verifProxyHits[bs[0].Name]+verifProxyHits[bs[1].Name] == hits+1 {
			ok = true
		}
	}
	verifForceOK = false
	verifrt.Assert(ok, "after the faults a request to a healthy backend succeeds normally")
}

// VerifC07Wiring: with the breaker enabled, failed proxied requests are what
// the breaker counts, and while it is open no backend is contacted.
func VerifC07Wiring(interim int) {
	feats := verifFeatBreaker
	if interim != 0 {
		feats |= verifFeatInterim // the backend may send up to two interim 1xx responses before its final status
	}
	lb, bs := verifFullLB(0, 1, feats)
	defer func() { verifNoInterim = true }()
	f0, _, _ := lb.circuitBreaker.Counts()
	rec := verifNewRecorder()
	aborted, _ := verifServe(lb, rec, rec.finish, verifRequest("10.1.2.3:4711"))
	f1, _, _ := lb.circuitBreaker.Counts()
	failed := aborted || rec.status >= 500
	verifrt.Assert(verifrt.Implies(failed, f1 == f0+1), "a failed proxied request (5xx, unreachable backend, aborted response) counts as a breaker failure")
	verifrt.Assert(verifrt.Implies(!failed, f1 == f0), "a successful proxied request is not counted as a failure")
	if lb.circuitBreaker.State() == circuitbreaker.StateOpen {
		hits := verifProxyHits[bs[0].Name]
		rec2 := verifNewRecorder()
		verifServe(lb, rec2, rec2.finish, verifRequest("10.1.2.3:4711"))
		verifrt.Assert(rec2.status == http.StatusServiceUnavailable, "while the breaker is open requests are rejected with 503")
		verifrt.Assert(verifProxyHits[bs[0].Name] == hits, "while the breaker is open no backend is contacted")
	} else {
		verifrt.Reach("breaker stayed closed")
	}
}

// VerifC09Gate: a request the limiter denies gets 429, reaches no backend and
// does not consult the breaker; the bucket key is the client address.
func VerifC09Gate() {
	lb, bs := verifFullLB(0, 1, verifFeatBreaker|verifFeatLimiter)
	verifForceOK = true
	max := lb.rateLimiter.(interface{ Allow(string) bool })
	_ = max
	admitted := 0
	for i := 0; i < 3; i++ {
		rec := verifNewRecorder()
		hits := verifProxyHits[bs[0].Name]
		f0, s0, r0 := lb.circuitBreaker.Counts()
		verifServe(lb, rec, rec.finish, verifRequest("10.1.2.3:4711"))
		f1, s1, r1 := lb.circuitBreaker.Counts()
		if rec.status == http.StatusTooManyRequests {
			verifrt.Assert(verifProxyHits[bs[0].Name] == hits, "a rate-limited request is not forwarded")
			verifrt.Assert(f0 == f1 && s0 == s1 && r0 == r1, "a rate-limited request does not touch the breaker")
		} else {
			admitted++
			verifrt.Assert(verifProxyHits[bs[0].Name] == hits+1, "an admitted request is forwarded")
		}
	}
	verifrt.Assert(admitted <= 2, "burst of one client is bounded by max_tokens (<= 2 here)")
	// another client address has its own bucket
	other := verifRequest("10.1.2.3:4711")
	other.Header.Set("X-Forwarded-For", "203.0.113.77")
	rec := verifNewRecorder()
	verifServe(lb, rec, rec.finish, other)
	verifrt.Assert(rec.status == http.StatusOK, "another client address is not affected (bucket key is the client address)")
	verifForceOK = false
}

// VerifC09GateAny: whatever a client puts into X-Forwarded-For (every
// string of l bytes, including blanks, commas and non-ASCII bytes) it is limited like any other
// client: of three identical requests at one instant at most max_tokens (1..2)
// are admitted and forwarded.
func VerifC09GateAny(l int) {
	lb, bs := verifFullLB(0, 1, verifFeatLimiter)
	verifForceOK = true
	defer func() { verifForceOK = false }()
	xff := verifrt.String("xForwardedFor", l) // any bytes, including multi-byte Unicode white space
	admitted := 0
	for i := 0; i < 3; i++ {
		r := verifRequest("10.1.2.3:4711")
		if l > 0 {
			r.Header.Set("X-Forwarded-For", xff)
		}
		rec := verifNewRecorder()
		hits := verifProxyHits[bs[0].Name]
		verifServe(lb, rec, rec.finish, r)
		if verifProxyHits[bs[0].Name] > hits {
			admitted++
		}
	}
	verifrt.Assert(admitted <= 2, "no client attribution escapes the limiter: at most max_tokens of one client's simultaneous requests are forwarded")
}

// VerifC09IsolationAny: two clients whose X-Forwarded-For values are ANY two
// different strings of l printable ASCII bytes without blanks or commas (so the
// whole value is the client address: dotted, colon-separated, digits-only
// suffixes, anything): after the first has used up its burst the second still
// gets its own full burst.
func VerifC09IsolationAny(l int) {
	lb, bs := verifFullLB(0, 1, verifFeatLimiter)
	verifForceOK = true
	defer func() { verifForceOK = false }()
	a := verifrt.String("clientA", l)
	b := verifrt.String("clientB", l)
	differ := false
	for i := 0; i < l; i++ {
		verifrt.Assume(a[i] > ' ' && a[i] < 0x7f && a[i] != ',')
		verifrt.Assume(b[i] > ' ' && b[i] < 0x7f && b[i] != ',')
		differ = verifrt.Or(differ, a[i] != b[i])
	}
	verifrt.Assume(differ)
	send := func(xff string) bool {
		r := verifRequest("10.1.2.3:4711")
		r.Header.Set("X-Forwarded-For", xff)
		rec := verifNewRecorder()
		hits := verifProxyHits[bs[0].Name]
		verifServe(lb, rec, rec.finish, r)
		return verifProxyHits[bs[0].Name] > hits
	}
	for i := 0; i < 3; i++ {
		send(a)
	}
	verifrt.Assert(send(b), "a client never seen before starts with a full burst, whatever another client with a different address did")
}

// VerifC09Wiring: the limiter as the balancer builds it from the configuration
// (real validation, real setupRateLimiter): for every accepted rate_limit
// section (max_tokens 1..3, refill_rate_seconds 1..3600) a new client gets
// exactly max_tokens requests through at one instant, the next one is answered
// 429 and not forwarded, and after k configured refill periods of silence
// min(k, max_tokens) more are admitted.
func VerifC09Wiring() {
	cfg := &config.Config{}
	cfg.Server.Port = 8080
	cfg.Backends = []config.BackendConfig{{Name: "b0", Address: "http://b0:80"}}
	cfg.RateLimit.Enabled = true
	cfg.RateLimit.MaxTokens = verifrt.IntRange("max_tokens", 1, 3)
	cfg.RateLimit.RefillRate = verifrt.IntRange("refill_rate_seconds", 1, 3600)
	verifrt.Assume(cfg.Validate() == nil)
	lb, bs := verifFullLB(0, 1, 0)
	lb.setupRateLimiter(cfg)
	// the limit is about requests, not about their outcome: with the circuit breaker in front (a
	// threshold the burst does not reach) and a backend that answers 200 or fails every request
	outcome := "200"
	if verifrt.Bool("breakerEnabledAndBackendFailing") {
		lb.circuitBreaker = circuitbreaker.NewCircuitBreaker(circuitbreaker.Settings{Name: "verif", MaxRequests: 1, Interval: time.Hour, Timeout: time.Hour, FailureThreshold: 100, SuccessThreshold: 1})
		outcome = "503"
	}
	send := func() bool {
		rec := verifNewRecorder()
		hits := verifProxyHits[bs[0].Name]
		rq := verifRequest("10.1.2.3:4711")
		rq.Header.Set("X-Verif-Outcome", outcome)
		verifServe(lb, rec, rec.finish, rq)
		fwd := verifProxyHits[bs[0].Name] > hits
		verifrt.Assert(fwd == (rec.status != http.StatusTooManyRequests), "a request is forwarded exactly when it is not answered 429")
		return fwd
	}
	admitted := 0
	for i := 0; i < 4; i++ {
		if send() {
			admitted++
		}
	}
	verifrt.Assert(admitted == cfg.RateLimit.MaxTokens, "a new client gets exactly the configured max_tokens through in a burst")
	k := verifrt.IntRange("idlePeriods", 1, 3)
	verifrt.Advance(time.Duration(k*cfg.RateLimit.RefillRate) * time.Second)
	more := 0
	for i := 0; i < 4; i++ {
		if send() {
			more++
		}
	}
	want := k
	if want > cfg.RateLimit.MaxTokens {
		want = cfg.RateLimit.MaxTokens
	}
	verifrt.Assert(more == want, "after k configured refill periods of silence exactly min(k, max_tokens) more requests are admitted at once")
}

// VerifC03Timeouts: for every timeout configuration that validation accepts
// (values up to 2^31 seconds), the backend transport built by AddBackend has
// strictly positive timeouts - a backend can never hang a request forever.
func VerifC03Timeouts() {
	lb := verifBareLB(0)
	c := lb.config
	c.Backends = []config.BackendConfig{{Name: "b0", Address: "http://b0:80"}}
	c.Server.Port = 8080
	c.Server.Timeouts.BackendDial = verifrt.IntRange("backend_dial", -1, 1<<31)
	c.Server.Timeouts.BackendRead = verifrt.IntRange("backend_read", -1, 1<<31)
	c.Server.Timeouts.BackendIdle = verifrt.IntRange("backend_idle", -1, 1<<31)
	if c.Validate() != nil {
		verifrt.Reach("rejected")
		return
	}
	err := lb.AddBackend(c.Backends[0])
	verifrt.Assert(err == nil, "AddBackend accepts a well-formed address")
	p := lb.strategy.GetBackends()[0].ReverseProxy
	tr := p.Transport.(*http.Transport)
	verifrt.Assert(tr.ResponseHeaderTimeout > 0, "backend response-header timeout is never disabled")
	verifrt.Assert(tr.IdleConnTimeout > 0, "backend idle-connection timeout is never disabled")
	verifrt.Assert(tr.TLSHandshakeTimeout > 0 && tr.DialContext != nil, "backend dial path has a timeout-carrying dialer")
	verifrt.Assert(p.ModifyResponse == nil && p.ErrorHandler == nil && p.Rewrite == nil, "no response-rewriting hooks are installed on the per-backend proxy")
	verifrt.Assert(tr.DisableCompression, "the backend transport does not negotiate compression on its own: it would add Accept-Encoding: gzip to requests of clients that sent none and hand the client a decoded body without the backend's Content-Encoding / Content-Length")
}
