package loadbalancer

import (
	"net/http"
	"time"

	"github.com/0xReLogic/Helios/internal/circuitbreaker"
	"github.com/0xReLogic/Helios/internal/config"
	"github.com/0xReLogic/Helios/internal/metrics"
	"github.com/0xReLogic/Helios/internal/verifrt"
)

// verifMetricsOps: every public operation of the metrics collector.
var verifMetricsOps = []string{"GetMetrics", "RecordRequest", "RecordResponse", "RecordBackendRequest", "UpdateBackendHealth",
	"UpdateBackendConnections", "SyncBackendConnections", "RecordRateLimitedRequest", "UpdateCircuitBreakerState"}

func verifMetricsOp(mc *metrics.MetricsCollector, op int) {
	switch op {
	case 0:
		m := mc.GetMetrics()
		// a reader walks the whole snapshot, like the JSON encoder of /metrics
		for _, b := range m.BackendMetrics {
			_ = b.ActiveConnections + int32(b.TotalRequests)
			_ = b.IsHealthy
		}
		for _, c := range m.CircuitBreakerMetrics {
			_ = c.State
			_ = c.FailureCount + c.SuccessCount + c.RequestCount
		}
	case 1:
		mc.RecordRequest()
	case 2:
		mc.RecordResponse(true, time.Millisecond)
	case 3:
		mc.RecordBackendRequest("b0", false, time.Millisecond)
	case 4:
		mc.UpdateBackendHealth("b0", false)
	case 5:
		mc.UpdateBackendConnections("b0", 3)
	case 6:
		mc.SyncBackendConnections("b0", func() int32 { return 2 })
	case 7:
		mc.RecordRateLimitedRequest()
	case 8:
		mc.UpdateCircuitBreakerState("helios-lb", "OPEN", metrics.CircuitBreakerCounts{FailureCount: 5, RequestCount: 1})
	}
}

// VerifC12Metrics: two operations of the metrics collector run concurrently
// (every unordered pair), from a collector that already knows the backend and
// the breaker (warm = 1) or sees them for the first time (warm = 0: map
// insertion racing a reader). Built-in assertions only.
func VerifC12Metrics(i, j int, warm int) {
	mc := metrics.NewMetricsCollector()
	if warm == 1 {
		mc.UpdateBackendHealth("b0", true)
		mc.UpdateCircuitBreakerState("helios-lb", "CLOSED", metrics.CircuitBreakerCounts{})
	}
	verifrt.Go(func() { verifMetricsOp(mc, i) })
	verifrt.Go(func() { verifMetricsOp(mc, j) })
	verifrt.WaitAll()
	verifrt.Reach("pair completed")
}

var verifBreakerOps = []string{"Execute(ok)", "Execute(fail)", "State", "Counts", "GetMetrics (reads what the state-change callback writes)"}

// VerifC12Breaker: two breaker operations run concurrently on the breaker
// as the balancer wires it (real setupCircuitBreaker: the state-change callback
// writes the metrics collector), from the closed state one failure short of
// tripping (pre = 0), from open with the timeout elapsed (pre = 1) and from
// half-open with budget left (pre = 2) - so that every state change and its
// notification races the other operation.
func VerifC12Breaker(i, j int, pre int) {
	lb, _ := verifFullLB(0, 1, 0)
	cfg := &config.Config{}
	cfg.CircuitBreaker = config.CircuitBreakerConfig{Enabled: true, MaxRequests: 2, IntervalSeconds: 60, TimeoutSeconds: 30, FailureThreshold: 2, SuccessThreshold: 2}
	lb.setupCircuitBreaker(cfg)
	cb := lb.circuitBreaker
	cb.Execute(func() error { return verifProbeErr })
	if pre >= 1 {
		cb.Execute(func() error { return verifProbeErr }) // trips
		verifrt.Advance(31 * time.Second)
	}
	if pre == 2 {
		cb.Execute(func() error { return nil }) // first trial: half-open, one success, budget left
	}
	verifrt.WaitAll() // notifications of the pre-state have been delivered
	op := func(k int) func() {
		return func() {
			switch k {
			case 0:
				cb.Execute(func() error { return nil })
			case 1:
				cb.Execute(func() error { return verifProbeErr })
			case 2:
				_ = cb.State()
			case 3:
				cb.Counts()
			case 4:
				verifMetricsOp(lb.metricsCollector, 0)
			}
		}
	}
	verifrt.Go(op(i))
	verifrt.Go(op(j))
	verifrt.WaitAll()
	verifrt.Reach("pair completed")
	_ = circuitbreaker.StateClosed
}

var verifLBOps = []string{"request served 200", "request answered 503 by the backend (passive checks, threshold 1)", "AddBackend", "RemoveBackend", "SetStrategy",
	"ListBackends", "probe fails", "probe succeeds", "GetMetrics"}

// VerifC12LB: two balancer-level operations run concurrently (every unordered
// pair of 9: traffic that succeeds / fails with passive checks on, the three
// admin mutations, the admin listing, probe results, the metrics read) on a
// balancer with two backends, passive checks (threshold 1) and metrics.
// Built-in assertions only: no race, deadlock, WaitGroup misuse or panic.
func VerifC12LB(i, j int) {
	lb, bs := verifFullLB(0, 2, verifFeatPassive)
	lb.healthChecks.passiveThreshold = 1
	op := func(k int) func() {
		return func() {
			switch k {
			case 0, 1:
				r := verifRequest("10.1.2.3:4711")
				r.Header.Set("X-Verif-Outcome", []string{"200", "503"}[k])
				rec := verifNewRecorder()
				verifServe(lb, rec, rec.finish, r)
			case 2:
				lb.AddBackend(config.BackendConfig{Name: "n", Address: "http://n:80"})
			case 3:
				lb.RemoveBackend(bs[0].Name)
			case 4:
				lb.SetStrategy("least_connections")
			case 5:
				for _, in := range lb.ListBackends() {
					_ = in.Healthy
					_ = in.ActiveConnections
				}
			case 6:
				lb.handleHealthCheckFailure(bs[0], verifProbeErr)
			case 7:
				lb.processHealthCheckResponse(bs[0], &http.Response{StatusCode: http.StatusOK})
			case 8:
				verifMetricsOp(lb.metricsCollector, 0)
			}
		}
	}
	verifrt.Go(op(i))
	verifrt.Go(op(j))
	verifrt.WaitAll()
	verifrt.Reach("pair completed")
}
