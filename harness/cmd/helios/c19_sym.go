package main

import (
	"context"
	"net/http"
	"time"

	"github.com/0xReLogic/Helios/internal/verifrt"
)

var (
	verifShutdownWant   time.Duration
	verifShutdownCalls  int
	verifShutdownBudget bool
	verifClosedHard     bool
	verifClosedEarly    bool // Close before (instead of) the graceful drain
	verifDrainFails     bool
)

func verifInFlightHandler(h http.Handler) http.Handler { return h }

func verifStartWithRequestInFlight(srv *http.Server, budget time.Duration) {
	verifShutdownWant, verifShutdownCalls, verifShutdownBudget, verifClosedHard, verifClosedEarly = budget, 0, false, false, false
	verifDrainFails = verifrt.Bool("drainingFails")
}

// verifServerShutdown is the executor's model of (*http.Server).Shutdown: it records whether the
// context it is given leaves the in-flight requests the whole configured budget.
func verifServerShutdown(srv *http.Server, ctx context.Context) error {
	verifShutdownCalls++
	if verifShutdownCalls == 1 {
		dl, has := ctx.Deadline()
		verifShutdownBudget = ctx.Err() == nil && (!has || dl.Sub(verifrt.Now()) >= verifShutdownWant)
	}
	if verifDrainFails {
		return context.DeadlineExceeded
	}
	return nil
}

// verifServerClose is the model of (*http.Server).Close.
func verifServerClose(srv *http.Server) error {
	verifClosedHard = true
	if verifShutdownCalls == 0 {
		verifClosedEarly = true
	}
	return nil
}

func verifInFlightCompleted() bool {
	// drained gracefully first, with the whole budget; closed hard if draining failed (a Close after a
	// successful drain is harmless)
	return verifShutdownCalls >= 1 && verifShutdownBudget && !verifClosedEarly && (!verifDrainFails || verifClosedHard)
}
