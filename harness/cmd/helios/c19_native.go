package main

import (
	"net"
	"net/http"
	"time"
)

var (
	verifEntered chan struct{}
	verifResult  chan int
)

// verifInFlightHandler: natively the request in flight takes 300 ms in the handler.
func verifInFlightHandler(h http.Handler) http.Handler {
	return http.HandlerFunc(func(w http.ResponseWriter, r *http.Request) {
		close(verifEntered)
		time.Sleep(300 * time.Millisecond)
		w.WriteHeader(http.StatusNoContent)
	})
}

func verifStartWithRequestInFlight(srv *http.Server, budget time.Duration) {
	verifEntered, verifResult = make(chan struct{}), make(chan int, 1)
	l, err := net.Listen("tcp", "127.0.0.1:0")
	if err != nil {
		panic(err)
	}
	go srv.Serve(l)
	go func() {
		resp, err := http.Get("http://" + l.Addr().String() + "/")
		if err != nil {
			verifResult <- -1
			return
		}
		resp.Body.Close()
		verifResult <- resp.StatusCode
	}()
	<-verifEntered
}

func verifInFlightCompleted() bool {
	select {
	case code := <-verifResult:
		return code == http.StatusNoContent
	case <-time.After(5 * time.Second):
		return false
	}
}
