package main

import (
	"net/http"
	"net/url"
	"time"

	"github.com/0xReLogic/Helios/internal/config"
	"github.com/0xReLogic/Helios/internal/loadbalancer"
	"github.com/0xReLogic/Helios/internal/verifrt"
)

type verifConnRecorder struct {
	hdr         http.Header
	wroteHeader bool
	status      int
	wire        http.Header
	body        []byte
	flushedAt   []int // bytes on the wire at each flush
}

func (r *verifConnRecorder) Header() http.Header { return r.hdr }
func (r *verifConnRecorder) WriteHeader(code int) {
	if code >= 100 && code < 200 && code != 101 {
		return
	}
	if r.wroteHeader {
		return
	}
	r.wroteHeader, r.status, r.wire = true, code, r.hdr.Clone()
}
func (r *verifConnRecorder) Write(b []byte) (int, error) {
	if !r.wroteHeader {
		r.WriteHeader(http.StatusOK)
	}
	if len(r.body) < 128 {
		r.body = append(r.body, b...)
	}
	return len(b), nil
}
func (r *verifConnRecorder) Flush() {
	if !r.wroteHeader {
		r.WriteHeader(http.StatusOK)
	}
	r.flushedAt = append(r.flushedAt, len(r.body))
}

// verifTimeoutHandler is the executor's model of http.TimeoutHandler (the real one runs
// natively): the inner handler writes into a buffering writer that is neither a Flusher nor
// a Hijacker and keeps the first status it is given; the buffered response is copied out when
// the handler returns. No time passes during a request; the timeout fires exactly when the harness
// declared the backend slower than the timeout (verifSlow): the inner handler's response is then
// discarded and 503 + msg is written with whatever headers the OUTER writer carries.
type verifTimeoutWriter struct {
	hdr         http.Header
	code        int
	wroteHeader bool
	buf         []byte
}

func (t *verifTimeoutWriter) Header() http.Header { return t.hdr }
func (t *verifTimeoutWriter) WriteHeader(code int) {
	if t.wroteHeader {
		return
	}
	t.wroteHeader, t.code = true, code
}
func (t *verifTimeoutWriter) Write(b []byte) (int, error) {
	if !t.wroteHeader {
		t.WriteHeader(http.StatusOK)
	}
	t.buf = append(t.buf, b...)
	return len(b), nil
}

func verifTimeoutHandler(h http.Handler, dt time.Duration, msg string) http.Handler {
	return http.HandlerFunc(func(w http.ResponseWriter, r *http.Request) {
		tw := &verifTimeoutWriter{hdr: http.Header{}}
		h.ServeHTTP(tw, r)
		if verifSlow && dt > 0 {
			w.WriteHeader(http.StatusServiceUnavailable)
			w.Write([]byte(msg))
			return
		}
		dst := w.Header()
		for k, vv := range tw.hdr {
			dst[k] = vv
		}
		if !tw.wroteHeader {
			tw.code = http.StatusOK
		}
		w.WriteHeader(tw.code)
		w.Write(tw.buf)
	})
}

var verifLastPanic interface{}

// verifSlow: the backend of the current request answers later than server.timeouts.handler.
var verifSlow bool

func verifServeStack(h http.Handler, rec *verifConnRecorder, r *http.Request) (aborted, crashed bool) {
	defer func() {
		if x := recover(); x != nil {
			if x == http.ErrAbortHandler {
				aborted = true
			} else {
				crashed = true
				verifLastPanic = x
			}
		}
	}()
	h.ServeHTTP(rec, loadbalancer.VerifServerRequest(r))
	if !rec.wroteHeader {
		rec.WriteHeader(http.StatusOK)
	}
	return
}

// VerifStack: the whole handler composition as main builds it
// (plugins -> RequestContextMiddleware -> balancer) over scripted backends.
// For every sequence of <= k requests x every backend behaviour x every kind
// of rejection (plugin 401, 413, limiter 429, breaker/no-backend 503):
//   - nothing crashes or wedges, every request gets a response;
//   - every response carries the request-ID and trace headers (C16, all response paths);
//   - a proxied exchange that no plugin transforms delivers the backend's status (C01);
//   - a request rejected by a plugin reaches no backend (C17).
func VerifStack(features, k, interim int) {
	loadbalancer.VerifAllowInterim(interim != 0)
	defer loadbalancer.VerifAllowInterim(false)
	c := &config.Config{}
	c.Server.Port = 8080
	c.Plugins.Enabled = true
	c.Plugins.Chain = []config.PluginConfig{
		{Name: "logging"},
		{Name: "custom-auth", Config: map[string]interface{}{"apiKey": "sesame"}},
		{Name: "size_limit", Config: map[string]interface{}{"max_request_body": 8, "max_response_body": 64}},
		{Name: "headers", Config: map[string]interface{}{"set": map[string]interface{}{"X-App": "Helios"}}},
	}
	c.Logging.RequestID.Enabled = true
	c.Logging.Trace.Enabled = true
	// documented, validated and shipped as 30 in helios.yaml; whatever it is set to, the clauses below hold
	c.Server.Timeouts.Handler = []int{0, 1}[verifrt.Choice("server.timeouts.handler", 2)]
	// the balancer is built the way main builds it: NewLoadBalancer from the same configuration
	lb := loadbalancer.VerifConfiguredLB(c, features)
	defer lb.Stop()
	h, err := buildHandler(c, lb)
	verifrt.Assert(err == nil && h != nil, "the documented handler composition builds")
	// ... and handed to the server the way main does: requests enter through the server's handler
	c.Server.Port = 8080
	h = createHTTPServer(c, h).Handler
	defer func() { verifSlow = false; loadbalancer.VerifBackendSlow(false) }()
	for i := 0; i < k; i++ {
		// the last request of the sequence may meet a backend that is slower than the configured handler timeout
		verifSlow = i == k-1 && c.Server.Timeouts.Handler > 0 && verifrt.Bool("backendSlowerThanTheHandlerTimeout")
		loadbalancer.VerifBackendSlow(verifSlow)
		r := &http.Request{Method: "POST", URL: &url.URL{Path: "/api"}, Header: http.Header{}, RemoteAddr: "10.1.2.3:4711", Body: http.NoBody}
		keyOK := verifrt.Bool("apiKeyCorrect")
		if keyOK {
			r.Header.Set("X-API-Key", "sesame")
		}
		tooLarge := verifrt.Bool("declaredBodyTooLarge")
		if tooLarge {
			r.ContentLength = 9
		}
		upgrade := verifrt.Bool("requestAsksForWebSocketUpgrade")
		if upgrade {
			// an Upgrade request is a request like any other for authentication, limits and IDs
			r.Header.Set("Connection", "Upgrade")
			r.Header.Set("Upgrade", "websocket")
		}
		clientID := ""
		if verifrt.Bool("clientSendsRequestID") {
			clientID = "req-from-client"
			r.Header.Set("X-Request-ID", clientID)
		}
		hits := loadbalancer.VerifBackendHits("b0")
		rec := &verifConnRecorder{hdr: http.Header{}}
		aborted, crashed := verifServeStack(h, rec, r)
		if crashed {
			verifrt.ObserveStr("crash", fmtAny(verifLastPanic))
		}
		verifrt.Assert(!crashed, "no panic other than the re-raised abort")
		verifrt.Assert(rec.wroteHeader, "every request gets a response")
		reached := loadbalancer.VerifBackendHits("b0") > hits
		id := rec.wire.Get("X-Request-ID")
		kind, _ := loadbalancer.VerifLastBackend()
		verifrt.Assert(id != "" && rec.wire.Get("X-Trace-ID") != "", "every response path carries the request-ID and trace headers")
		verifrt.Assert(clientID == "" || id == "" || id == clientID, "a client-supplied request ID is echoed unchanged on every response path")
		if verifSlow && rec.status == http.StatusServiceUnavailable {
			// (if the handler timeout is enforced anywhere, this is its 503: nothing more to say about this request)
			continue
		}
		if !keyOK {
			verifrt.Assert(rec.status == http.StatusUnauthorized && !reached, "custom-auth rejects with 401 and the backend is not contacted")
			continue
		}
		if tooLarge {
			verifrt.Assert(rec.status == http.StatusRequestEntityTooLarge && !reached, "size_limit rejects with 413 and the backend is not contacted")
			continue
		}
		verifrt.Assert(rec.wire.Get("X-App") == "Helios", "the headers plugin's response header is on the wire")
		verifrt.Assert(len(rec.wire["Link"]) == 0, "the final response carries no header that only an interim response carried")
		if reached && upgrade {
			verifrt.Assert(!loadbalancer.VerifUpgradeHadDeadline(), "an Upgrade request reaches the reverse proxy without a deadline on its context: a tunnel lives until one side closes it, whatever server.timeouts.handler says")
		}
		if reached && !aborted {
			st := rec.status
			_, bst := loadbalancer.VerifLastBackend()
			ok := (kind == 0 && st == bst) || (kind == 1 && st == http.StatusBadGateway)
			verifrt.Assert(ok, "a proxied exchange delivers exactly the backend's status (502 when the backend is unreachable)")
			if kind == 0 {
				verifrt.Assert(string(rec.body) == "ok", "a proxied exchange delivers exactly the backend's body: nothing dropped, nothing appended")
				// the backend wrote "o", flushed, wrote "k": some flush must have happened with exactly the
				// first chunk on the wire (an additional header-only flush before it is harmless)
				midway := false
				for _, n := range rec.flushedAt {
					if n == 1 {
						midway = true
					}
				}
				verifrt.Assert(midway, "bytes a streaming backend has flushed reach the client while the response is still open (through the whole handler stack)")
			} else {
				verifrt.Assert(len(rec.body) == 0, "an unreachable backend is answered with the proxy's bare 502")
			}
		}
	}
}

func fmtAny(x interface{}) string {
	if e, ok := x.(error); ok {
		return e.Error()
	}
	if s, ok := x.(string); ok {
		return s
	}
	return "panic"
}
