package main

import (
	"net/http"

	"github.com/0xReLogic/Helios/internal/config"
	"github.com/0xReLogic/Helios/internal/loadbalancer"
	"github.com/0xReLogic/Helios/internal/verifrt"
)

// VerifC18Starts: a configuration that validation accepts either starts a
// fully wired proxy or fails with an error; it never panics and never comes up
// half-configured. (Servers are constructed, not started.)
func VerifC18Starts(full int) {
	c := &config.Config{}
	c.Server.Port = verifrt.IntRange("server.port", 1, 65535)
	c.Backends = []config.BackendConfig{{Name: "b0", Address: "http://127.0.0.1:8081", Weight: verifrt.IntRange("weight", 0, 100)}}
	if verifrt.Bool("secondBackendUnparsable") {
		c.Backends = append(c.Backends, config.BackendConfig{Name: "b1", Address: "http://[::1"})
	}
	c.LoadBalancer.Strategy = "round_robin"
	if full != 0 {
		c.LoadBalancer.Strategy = []string{"", "round_robin", "least_connections", "weighted_round_robin", "ip_hash", "ip_hash_consistent"}[verifrt.Choice("strategy", 6)]
	}
	t := &c.Server.Timeouts
	t.Read, t.Write, t.Idle = verifrt.IntRange("timeouts.read", 0, 1<<31), verifrt.IntRange("timeouts.write", 0, 1<<31), verifrt.IntRange("timeouts.idle", 0, 1<<31)
	c.RateLimit.Enabled = verifrt.Bool("rate_limit.enabled")
	c.RateLimit.MaxTokens, c.RateLimit.RefillRate = verifrt.IntRange("max_tokens", 1, 1000), verifrt.IntRange("refill", 1, 1000)
	c.CircuitBreaker.Enabled = verifrt.Bool("breaker.enabled")
	c.CircuitBreaker.FailureThreshold, c.CircuitBreaker.SuccessThreshold = verifrt.IntRange("ft", 1, 10), verifrt.IntRange("st", 1, 10)
	c.CircuitBreaker.TimeoutSeconds, c.CircuitBreaker.IntervalSeconds = verifrt.IntRange("cbt", 1, 1000), verifrt.IntRange("cbi", 1, 1000)
	c.HealthChecks.Passive.Enabled = full != 0 && verifrt.Bool("passive.enabled")
	c.HealthChecks.Passive.UnhealthyThreshold, c.HealthChecks.Passive.UnhealthyTimeout = verifrt.IntRange("pt", 1, 10), verifrt.IntRange("pw", 1, 1000)
	c.LoadBalancer.WebSocketPool.Enabled = full != 0 && verifrt.Bool("ws.enabled")
	c.Plugins.Enabled = verifrt.Bool("plugins.enabled")
	c.Plugins.Chain = []config.PluginConfig{{Name: "logging"}, {Name: "size_limit", Config: map[string]interface{}{"max_request_body": 1024}}}
	if verifrt.Bool("unknownPlugin") {
		c.Plugins.Chain = append(c.Plugins.Chain, config.PluginConfig{Name: "no-such-plugin"})
	}
	c.Logging.RequestID.Enabled = full != 0 && verifrt.Bool("request_id.enabled")
	verifrt.Assume(c.Validate() == nil)

	lb, err := loadbalancer.NewLoadBalancer(c)
	if err != nil {
		verifrt.Assert(lb == nil && len(c.Backends) == 2, "balancer construction fails only for an unparsable backend address, with an error and no balancer")
		return
	}
	defer lb.Stop()
	verifrt.Assert(len(lb.ListBackends()) == len(c.Backends), "every configured backend is registered")
	h, err := buildHandler(c, lb)
	if err != nil {
		verifrt.Assert(h == nil && c.Plugins.Enabled && len(c.Plugins.Chain) == 3, "handler construction fails only for the misconfigured plugin chain, with an error and no handler")
		return
	}
	verifrt.Assert(h != nil, "an accepted configuration yields a handler")
	srv := createHTTPServer(c, h)
	verifrt.Assert(srv.Handler != nil && srv.ReadTimeout > 0 && srv.WriteTimeout > 0 && srv.IdleTimeout > 0, "the server is fully wired and no server timeout is disabled")
	_ = http.StatusOK
}
