package main

import (
	"net/http"
	"time"

	"github.com/0xReLogic/Helios/internal/config"
	"github.com/0xReLogic/Helios/internal/loadbalancer"
	"github.com/0xReLogic/Helios/internal/verifrt"
)

// VerifC19Graceful: main's shutdown sequence (shutdownGracefully) for every
// configured server.timeouts.shutdown of 1..3600 s: a request that is in flight
// when the shutdown begins gets the whole configured timeout to complete, the
// server is only closed hard if draining failed, and the balancer is stopped
// afterwards. Under the executor http.Server.Shutdown / Close are models that
// record the context they are given; natively a real server on 127.0.0.1 has a
// request in flight (300 ms) while shutdownGracefully runs.
func VerifC19Graceful() {
	c := &config.Config{}
	c.Server.Port = 8080
	t := verifrt.IntRange("server.timeouts.shutdown", 1, 3600)
	c.Server.Timeouts.Shutdown = t
	lb := loadbalancer.VerifConfiguredLB(c, 0)
	h, err := buildHandler(c, lb)
	verifrt.Assert(err == nil && h != nil, "the documented handler composition builds")
	srv := createHTTPServer(c, verifInFlightHandler(h))
	verifStartWithRequestInFlight(srv, time.Duration(t)*time.Second)
	shutdownGracefully(srv, lb, time.Duration(t)*time.Second)
	verifrt.Assert(verifInFlightCompleted(), "a request in flight when the shutdown begins gets the configured shutdown timeout to complete (it is not cut off early)")
	_ = http.StatusOK
}
